"""Instrumentation layers (all harness-side, no repository edit).

L1  boundary recorders            -> Recorder / wrap_instance
L3a protected-storage write sanitizer, L3b RNG audit / Bernoulli tap
                                  -> DispatchMonitor (TorchDispatchMode)
L3b foreign RNG audit             -> ForeignRNGAudit
L4  reach recorder                -> ReachRecorder (sys.monitoring LINE+DISABLE)
"""
import hashlib
import os
import sys
import traceback

import numpy as np
import torch
from torch.utils._python_dispatch import TorchDispatchMode


# --------------------------------------------------------------------------
# digests
# --------------------------------------------------------------------------
def digest(x):
    """sha256 of the content (dtype, shape, bytes) of tensors / arrays / nested."""
    h = hashlib.sha256()
    _feed(h, x)
    return h.hexdigest()[:24]


def _feed(h, x):
    if isinstance(x, torch.Tensor):
        a = x.detach().cpu().contiguous().numpy()
        h.update(str((a.dtype, a.shape)).encode())
        h.update(a.tobytes())
    elif isinstance(x, np.ndarray):
        h.update(str((x.dtype, x.shape)).encode())
        h.update(np.ascontiguousarray(x).tobytes())
    elif isinstance(x, dict):
        for k in sorted(x, key=str):
            h.update(str(k).encode())
            _feed(h, x[k])
    elif isinstance(x, (list, tuple)):
        h.update(b"[")
        for v in x:
            _feed(h, v)
        h.update(b"]")
    elif isinstance(x, float):
        h.update(np.float64(x).tobytes())
    else:
        h.update(repr(x).encode())


def params_of(state):
    out = {}
    for net in state.networks:
        for name, p in getattr(state, net).named_parameters():
            out[f"{net}.{name}"] = p
    return out


def params_digest(state):
    return digest({k: v.data for k, v in params_of(state).items()})


def params_snapshot(state):
    return {k: v.data.clone() for k, v in params_of(state).items()}


# --------------------------------------------------------------------------
# L4 reach recorder
# --------------------------------------------------------------------------
class ReachRecorder:
    def __init__(self, repo):
        self.prefix = os.path.join(repo, "qucumber") + os.sep
        self.repo = repo
        self.lines = {}
        self.tool = None

    def start(self):
        mon = sys.monitoring
        self.tool = mon.COVERAGE_ID
        try:
            mon.use_tool_id(self.tool, "verif-reach")
        except ValueError:
            self.tool = None
            return
        mon.register_callback(self.tool, mon.events.LINE, self._line)
        mon.set_events(self.tool, mon.events.LINE)

    def _line(self, code, lineno):
        fn = code.co_filename
        if fn.startswith(self.prefix):
            rel = fn[len(self.repo) + 1:]
            s = self.lines.get(rel)
            if s is None:
                s = self.lines[rel] = set()
            s.add(lineno)
        return sys.monitoring.DISABLE

    def stop(self):
        if self.tool is None:
            return
        mon = sys.monitoring
        mon.set_events(self.tool, 0)
        mon.register_callback(self.tool, mon.events.LINE, None)
        mon.free_tool_id(self.tool)


# --------------------------------------------------------------------------
# L3 ATen dispatch monitor
# --------------------------------------------------------------------------
_RANDOM_OPS = (
    "bernoulli", "randperm", "randint", "randn", "normal", "uniform", "rand",
    "multinomial", "random", "exponential", "geometric", "cauchy", "log_normal",
    "poisson", "binomial",
)


def _is_random(opname):
    base = opname.split(".")[0].split("::")[-1].rstrip("_")
    if base.endswith("_like"):
        base = base[:-5]
    return base in _RANDOM_OPS


class DispatchMonitor(TorchDispatchMode):
    """Observes every ATen operator executed while active.

    * protect(name, tensor): registers the tensor's storage as read-only; any
      operator whose schema marks an argument as written and whose written
      tensor lives in that storage is recorded in ``writes``.
    * every random operator is logged in ``rng_ops``; for ``aten::bernoulli*``
      the probability tensor is cloned BEFORE the operator runs (the library
      draws with out= aliasing its input) and the result after, in ``bern``.
    * nonfinite outputs from finite inputs are recorded in ``nonfinite``.
    """

    def __init__(self, tap_bernoulli=False, float_check=False):
        super().__init__()
        self.protected = {}  # storage ptr -> name
        self.writes = []
        self.ops = 0
        self.write_ops = 0
        self.rng_ops = []
        self.bern = []
        self.tap_bernoulli = tap_bernoulli
        self.float_check = float_check
        self.nonfinite = []
        self._wcache = {}

    def protect(self, name, t):
        if isinstance(t, torch.Tensor) and t.numel() > 0:
            self.protected[t.untyped_storage().data_ptr()] = name

    def unprotect_all(self):
        self.protected.clear()

    def _write_positions(self, func):
        key = func
        wp = self._wcache.get(key)
        if wp is None:
            pos, kw = [], []
            for i, a in enumerate(func._schema.arguments):
                if a.alias_info is not None and a.alias_info.is_write:
                    (kw if a.kwarg_only else pos).append((i, a.name))
            wp = self._wcache[key] = (pos, kw)
        return wp

    def __torch_dispatch__(self, func, types, args=(), kwargs=None):
        kwargs = kwargs or {}
        self.ops += 1
        name = func._schema.name + "." + (func._schema.overload_name or "default")
        pos, kw = self._write_positions(func)
        if pos or kw:
            self.write_ops += 1
            written = []
            for i, an in pos:
                if i < len(args):
                    written.append(args[i])
                elif an in kwargs:
                    written.append(kwargs[an])
            for i, an in kw:
                if an in kwargs:
                    written.append(kwargs[an])
            if self.protected:
                for w in written:
                    ws = w if isinstance(w, (list, tuple)) else [w]
                    for t in ws:
                        if isinstance(t, torch.Tensor) and t.numel() > 0:
                            nm = self.protected.get(t.untyped_storage().data_ptr())
                            if nm is not None:
                                self.writes.append(
                                    {"op": name, "target": nm,
                                     "stack": "".join(traceback.format_stack(limit=14)[:-1])[-2500:]}
                                )
        rnd = _is_random(name)
        tap = None
        if rnd:
            gen = kwargs.get("generator")
            self.rng_ops.append((name, "default" if gen is None else "explicit"))
            if self.tap_bernoulli and "bernoulli" in name and args:
                a0 = args[0]
                if isinstance(a0, torch.Tensor):
                    p = None
                    if len(args) > 1 and isinstance(args[1], torch.Tensor):
                        p = args[1].detach().clone()  # bernoulli_(self, p)
                    elif len(args) > 1 and isinstance(args[1], float):
                        p = torch.full_like(a0, args[1])
                    elif "p" in kwargs and not isinstance(kwargs["p"], torch.Tensor):
                        p = torch.full_like(a0, float(kwargs["p"]))
                    else:
                        p = a0.detach().clone()
                    tap = p
        out = func(*args, **kwargs)
        if tap is not None:
            res = out if isinstance(out, torch.Tensor) else args[0]
            self.bern.append((name, tap, res.detach().clone()))
        if self.float_check and isinstance(out, torch.Tensor) and out.is_floating_point():
            if not bool(torch.isfinite(out).all()):
                fin = all(
                    bool(torch.isfinite(a).all())
                    for a in args
                    if isinstance(a, torch.Tensor) and a.is_floating_point()
                )
                if fin and len(self.nonfinite) < 5:
                    self.nonfinite.append(
                        {"op": name,
                         "stack": "".join(traceback.format_stack(limit=10)[:-1])[-1500:]}
                    )
        return out


# --------------------------------------------------------------------------
# foreign RNG audit (numpy legacy/global, numpy Generator creation, random, os.urandom)
# --------------------------------------------------------------------------
class ForeignRNGAudit:
    """Counts draws from non-torch random sources made while a frame of the
    library (``*/qucumber/*``) is on the Python stack."""

    NP_FUNCS = [
        "rand", "randn", "randint", "random", "random_sample", "ranf", "sample",
        "choice", "permutation", "shuffle", "uniform", "normal", "binomial",
        "standard_normal", "bytes", "beta", "exponential", "poisson", "seed",
    ]
    PY_FUNCS = [
        "random", "randint", "randrange", "choice", "choices", "shuffle", "sample",
        "uniform", "gauss", "normalvariate", "getrandbits", "betavariate",
        "expovariate", "triangular", "seed",
    ]

    def __init__(self, repo):
        self.marker = os.path.join(repo, "qucumber") + os.sep
        self.calls = []
        self._saved = []
        self.probe_calls = 0

    def _from_library(self):
        f = sys._getframe(2)
        while f is not None:
            if f.f_code.co_filename.startswith(self.marker):
                return f"{f.f_code.co_filename}:{f.f_lineno}"
            f = f.f_back
        return None

    def _wrap(self, owner, name, label):
        orig = getattr(owner, name, None)
        if orig is None:
            return
        audit = self

        def wrapper(*a, **k):
            audit.probe_calls += 1
            site = audit._from_library()
            if site is not None:
                audit.calls.append((label, site))
            return orig(*a, **k)

        self._saved.append((owner, name, orig))
        try:
            setattr(owner, name, wrapper)
        except (AttributeError, TypeError):
            self._saved.pop()

    def __enter__(self):
        import random as pyrandom

        for n in self.NP_FUNCS:
            self._wrap(np.random, n, f"numpy.random.{n}")
        self._wrap(np.random, "default_rng", "numpy.random.default_rng")
        self._wrap(np.random, "RandomState", "numpy.random.RandomState")
        for n in self.PY_FUNCS:
            self._wrap(pyrandom, n, f"random.{n}")
        self._wrap(os, "urandom", "os.urandom")
        return self

    def __exit__(self, *exc):
        for owner, name, orig in reversed(self._saved):
            setattr(owner, name, orig)
        self._saved.clear()
        return False


# --------------------------------------------------------------------------
# L1 boundary recorder helpers
# --------------------------------------------------------------------------
def clone_arg(a):
    if isinstance(a, torch.Tensor):
        return a.detach().clone()
    if isinstance(a, np.ndarray):
        return a.copy()
    return a


def wrap_instance(obj, name, log, label=None, clone_result=True):
    """Install a recording wrapper for method `name` on the *instance*.
    Call is logged (with cloned args) before invoking and the (cloned) result
    after."""
    orig = getattr(obj, name)
    lab = label or name

    def rec(*a, **k):
        ev = {"call": lab, "args": [clone_arg(x) for x in a],
              "kwargs": {kk: clone_arg(v) for kk, v in k.items()},
              "arg_ids": [id(x) for x in a]}
        log.append(ev)
        r = orig(*a, **k)
        if clone_result:
            if isinstance(r, (list, tuple)):
                ev["result"] = [clone_arg(x) for x in r]
            else:
                ev["result"] = clone_arg(r)
        ev["result_id"] = id(r)
        ev["result_obj"] = r
        return r

    rec.__wrapped_orig__ = orig
    # nn.Module forbids setattr of plain callables only for parameter names; fine here
    object.__setattr__(obj, name, rec)
    return orig
