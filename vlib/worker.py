"""Worker process: runs a shard of cases of one property against the real
library, under the reach recorder, and writes what the monitors observed."""
import faulthandler
import importlib
import json
import os
import sys
import time
import traceback
import warnings
from collections import Counter, defaultdict


class LibraryError(Exception):
    """Raised inside a case after a library call on a valid input raised; the
    violation has already been recorded, the rest of the case is abandoned."""


class Ctx:
    """Accumulates observations for one worker; `case` is set per case."""

    def __init__(self, prop_id, tier, seed):
        self.prop_id, self.tier, self.seed = prop_id, tier, seed
        self.counters = Counter()
        self.sets = defaultdict(set)
        self.nontrivial = set()
        self.violations = []
        self.samples = []
        self.diagnostics = []
        self.case = None
        self._viol_in_case = 0

    # ---- observations ----
    def count(self, name, n=1):
        self.counters[name] += int(n)

    def seen(self, setname, value):
        self.sets[setname].add(str(value))

    def mark_nontrivial(self, digest):
        self.nontrivial.add(str(digest))

    def sample(self, obj):
        if len(self.samples) < 3:
            self.samples.append(obj)

    def diag(self, msg):
        if len(self.diagnostics) < 20:
            self.diagnostics.append(str(msg)[:500])

    def violation(self, kind, msg, tags=None, witness=None):
        self._viol_in_case += 1
        self.counters["violations_observed"] += 1
        if self._viol_in_case > 8:  # cap per case; count still recorded
            return
        t = {"kind": kind}
        t.update(tags or {})
        self.violations.append(
            {"kind": kind, "msg": str(msg)[:2000], "tags": t,
             "witness": witness or {}, "case": self.case}
        )

    # ---- process-wide configuration sanitizer (every library call made through lib / must_raise) ----
    @staticmethod
    def _global_config():
        import numpy as _np
        import torch as _torch

        return (str(_torch.get_default_dtype()), _torch.is_grad_enabled(), _torch.are_deterministic_algorithms_enabled(),
                tuple(sorted(_np.geterr().items())))

    def _config_check(self, what, before):
        after = self._global_config()
        self.counters["global_config_checks"] += 1
        if after != before:
            import torch as _torch

            names = ("torch default dtype", "grad mode", "deterministic algorithms", "numpy errstate")
            changed = {n: (b, a) for n, b, a in zip(names, before, after) if a != b}
            _torch.set_default_dtype(_torch.float64 if "float64" in before[0] else _torch.float32)
            _torch.set_grad_enabled(before[1])
            self.violation("global-config-leak", f"{what} left process-wide configuration changed: {changed} (later results in this "
                           "process - random draws, dtypes - depend on whether this call was made)", tags={"call": what, "config": ",".join(changed)})

    # ---- library call discipline ----
    def lib(self, what, fn, *a, tags=None, exc_tagger=None, **k):
        """Call a library function on a VALID input: any exception is a
        violation of the property whose call it was."""
        cfg = self._global_config()
        try:
            r = fn(*a, **k)
            self._config_check(what, cfg)
            return r
        except LibraryError:
            raise
        except Exception as e:  # noqa: BLE001
            tb = traceback.format_exc()
            t = {"exc": type(e).__name__, "call": what}
            t.update(tags or {})
            if exc_tagger is not None:
                t.update(exc_tagger(e, tb) or {})
            self.violation(
                "exception", f"{what} raised {type(e).__name__}: {e}", tags=t,
                witness={"traceback": tb[-3000:]},
            )
            raise LibraryError(what) from e

    def must_raise(self, what, exc_types, fn, *a, tags=None, **k):
        """Call a library function on a MUST-REJECT input."""
        cfg = self._global_config()
        try:
            r = fn(*a, **k)
        except exc_types:
            self.count("rejections_observed")
            self._config_check(what + " (refused)", cfg)
            return True
        except Exception as e:  # noqa: BLE001
            self.violation(
                "wrong-exception",
                f"{what} raised {type(e).__name__} ({e}); expected "
                f"{getattr(exc_types, '__name__', exc_types)}",
                tags=dict(tags or {}, call=what, exc=type(e).__name__),
            )
            return False
        self.violation(
            "not-rejected", f"{what} was accepted and returned {str(r)[:200]}",
            tags=dict(tags or {}, call=what),
        )
        return False


def _hostile_neighbour(ctx):
    """Before every case another 'user' of the same process does what callers are entitled to do with objects the library
    handed them: it overwrites every enumerated Hilbert space / basis vector it was given, and edits the lists and
    dictionaries it received.  A library that hands out its own internal state (a memoised tensor, a shared list) instead
    of the caller's own object fails the case that follows.  Nothing here touches private attributes."""
    try:
        import warnings as _w

        from qucumber.nn_states import ComplexWaveFunction, DensityMatrix
        from qucumber.utils import unitaries as _un

        with _w.catch_warnings():
            _w.simplefilter("ignore")
            for st_ in (ComplexWaveFunction(2, 2, gpu=False), DensityMatrix(2, 2, 2, gpu=False)):
                for k in range(1, 7):
                    st_.generate_hilbert_space(k).fill_(0.5)
                    st_.subspace_vector(1, size=k).fill_(0.5)
                names = st_.networks
                if isinstance(names, list):
                    names.reverse()
                    names.append("not-a-network")
                for t_ in st_.unitary_dict.values():
                    t_.fill_(0.25)
                st_.unitary_dict.clear()
            d_ = _un.create_dict()
            for t_ in d_.values():
                t_.fill_(0.25)
            d_.clear()
        ctx.counters["hostile_neighbour_rounds"] += 1
    except Exception:  # noqa: BLE001  (an API of this helper missing on a refactored tree is not a verdict)
        ctx.counters["hostile_neighbour_unavailable"] += 1


def main(pin=None, pout=None):
    if pin is None:
        pin, pout = sys.argv[1], sys.argv[2]
    faulthandler.enable()
    with open(pin) as f:
        job = json.load(f)
    from . import bootstrap

    bootstrap.setup_env()
    from . import monitors

    reach = monitors.ReachRecorder(bootstrap.REPO)
    reach.start()
    mod = importlib.import_module(f"props.{job['prop']}")
    ctx = Ctx(job["prop"], job["tier"], job["seed"])
    harness_errors = []
    done = 0
    t0 = time.time()
    if hasattr(mod, "setup_worker"):
        mod.setup_worker(ctx)
    from .runner import jdigest

    for case in job["cases"]:
        ctx.case = case
        ctx._viol_in_case = 0
        _hostile_neighbour(ctx)
        try:
            with warnings.catch_warnings(record=True) as wlist:
                warnings.simplefilter("always")
                mod.run_case(case, ctx)
            for w in wlist:
                fn = str(w.filename)
                if "/qucumber/" in fn and w.category is not ResourceWarning:
                    ctx.count("library_warnings")
                    ctx.seen("library_warning_kinds", f"{w.category.__name__}:{str(w.message)[:80]}")
        except LibraryError:
            pass  # violation already recorded
        except Exception:  # noqa: BLE001  harness bug: never a verdict
            harness_errors.append(
                {"case_digest": jdigest(case), "case": case,
                 "error": traceback.format_exc()[-4000:]}
            )
        done += 1
    if hasattr(mod, "teardown_worker"):
        mod.teardown_worker(ctx)
    reach.stop()
    out = {
        "counters": dict(ctx.counters),
        "sets": {k: sorted(v) for k, v in ctx.sets.items()},
        "nontrivial": sorted(ctx.nontrivial),
        "violations": ctx.violations,
        "harness_errors": harness_errors,
        "samples": ctx.samples,
        "diagnostics": ctx.diagnostics,
        "lines": {k: sorted(v) for k, v in reach.lines.items()},
        "cases_done": done,
        "wall": time.time() - t0,
    }
    tmp = pout + ".tmp"
    with open(tmp, "w") as f:
        json.dump(out, f, default=str)
    os.replace(tmp, pout)


if __name__ == "__main__":
    main()
