"""Independent reference model.  Written from the definitions in the property
statements; never imports or calls qucumber.  NumPy complex128 for values,
torch complex128 autograd for gradients.

Conventions: basis order |0>,|1>; site 0 is the most significant bit and the
leftmost Kronecker factor; X=[[0,1],[1,0]], Y=[[0,-i],[i,0]],
Z = diag(-1,+1) (the documented 0/1 -> -1/+1 map).
"""
import itertools

import numpy as np
import torch

CD = torch.complex128
RD = torch.float64

# rows = <+|, <-| of the Pauli operator (what "measuring in that basis" means)
U_X = np.array([[1, 1], [1, -1]], dtype=complex) / np.sqrt(2)
U_Y = np.array([[1, -1j], [1, 1j]], dtype=complex) / np.sqrt(2)
U_Z = np.eye(2, dtype=complex)
PAULI_BASIS = {"X": U_X, "Y": U_Y, "Z": U_Z}

SX = np.array([[0, 1], [1, 0]], dtype=complex)
SY = np.array([[0, -1j], [1j, 0]], dtype=complex)
SZ = np.array([[-1, 0], [0, 1]], dtype=complex)
I2 = np.eye(2, dtype=complex)


def space(n):
    """All n-bit basis states in big-endian counting order, shape (2^n, n)."""
    if n == 0:
        return np.zeros((1, 0))
    return np.array(list(itertools.product([0, 1], repeat=n)), dtype=float)


def index_of(v):
    """big-endian integer of a 0/1 vector"""
    k = 0
    for b in v:
        k = 2 * k + int(round(float(b)))
    return k


def kron_all(mats):
    out = np.ones((1, 1), dtype=complex)
    for m in mats:
        out = np.kron(out, m)
    return out


def basis_unitary(basis, udict=None):
    udict = PAULI_BASIS if udict is None else udict
    return kron_all([udict[b] for b in basis])


def logsumexp(a, axis):
    m = np.max(a, axis=axis, keepdims=True)
    m = np.where(np.isfinite(m), m, 0.0)
    return (m + np.log(np.sum(np.exp(a - m), axis=axis, keepdims=True))).squeeze(axis)


# --------------------------------------------------------------------------
# plain RBM (W: nh x nv, b: nv, c: nh)
# --------------------------------------------------------------------------
def rbm_neg_energy(P, V, H):
    """-E(v,h) = b.v + c.h + h^T W v for all pairs -> (len V, len H)"""
    return (V @ P["b"])[:, None] + (H @ P["c"])[None, :] + (V @ P["W"].T @ H.T)


def rbm_log_marginal(P, V):
    """log sum_h exp(-E(v,h)) by explicit enumeration of all hidden states."""
    H = space(P["W"].shape[0])
    return logsumexp(rbm_neg_energy(P, V, H), axis=1)


def rbm_cond_h_given_v(P, V):
    """P(h_j = 1 | v) as a ratio of enumerated joint weights -> (len V, nh)"""
    H = space(P["W"].shape[0])
    w = rbm_neg_energy(P, V, H)
    w = np.exp(w - w.max(axis=1, keepdims=True))
    w /= w.sum(axis=1, keepdims=True)
    return w @ H


def rbm_cond_v_given_h(P, Hq):
    nv = P["W"].shape[1]
    V = space(nv)
    w = rbm_neg_energy(P, V, Hq).T  # (len Hq, len V)
    w = np.exp(w - w.max(axis=1, keepdims=True))
    w /= w.sum(axis=1, keepdims=True)
    return w @ V


def bern_prod(p, X):
    """prod_j p_j^x_j (1-p_j)^(1-x_j) for every row p (R, d) and config X (C, d) -> (R, C)"""
    p = np.asarray(p)[:, None, :]
    X = np.asarray(X)[None, :, :]
    return np.prod(np.where(X > 0.5, p, 1 - p), axis=2)


def rbm_joint_cond(P, V):
    """P(h | v) for all h, as normalised joint weights (len V, 2^nh)."""
    H = space(P["W"].shape[0])
    w = rbm_neg_energy(P, V, H)
    w = np.exp(w - w.max(axis=1, keepdims=True))
    return w / w.sum(axis=1, keepdims=True)


def rbm_kernel(P):
    """T(v,v') = sum_h P(h|v) P(v'|h), from enumerated joints."""
    nh, nv = P["W"].shape
    V, H = space(nv), space(nh)
    ph = rbm_joint_cond(P, V)  # (2^nv, 2^nh)
    w = rbm_neg_energy(P, V, H).T  # (2^nh, 2^nv)
    w = np.exp(w - w.max(axis=1, keepdims=True))
    pv = w / w.sum(axis=1, keepdims=True)
    return ph @ pv


# --------------------------------------------------------------------------
# purification RBM (W: nh x nv, U: na x nv, b, c, d)
# --------------------------------------------------------------------------
def pur_neg_energy(P, V, H, A):
    """-E(v,h,a) -> (len V, len H, len A)"""
    t = (V @ P["b"])[:, None, None]
    t = t + (H @ P["c"])[None, :, None] + (A @ P["d"])[None, None, :]
    t = t + (V @ P["W"].T @ H.T)[:, :, None] + (V @ P["U"].T @ A.T)[:, None, :]
    return t


def pur_log_marginal_va(P, V, A):
    """log sum_h exp(-E(v,h,a)) -> (len V, len A)"""
    H = space(P["W"].shape[0])
    return logsumexp(pur_neg_energy(P, V, H, A), axis=1)


def pur_log_marginal(P, V):
    """log sum_{h,a} exp(-E) -> (len V,)"""
    A = space(P["U"].shape[0])
    return logsumexp(pur_log_marginal_va(P, V, A), axis=1)


def pur_latent_cond(P, V):
    """P(h,a | v) as normalised joint weights: (len V, 2^nh, 2^na)"""
    H, A = space(P["W"].shape[0]), space(P["U"].shape[0])
    w = pur_neg_energy(P, V, H, A)
    m = w.reshape(len(V), -1).max(axis=1)[:, None, None]
    w = np.exp(w - m)
    return w / w.sum(axis=(1, 2), keepdims=True)


def pur_cond_h_given_v(P, V):
    H = space(P["W"].shape[0])
    return pur_latent_cond(P, V).sum(axis=2) @ H


def pur_cond_a_given_v(P, V):
    A = space(P["U"].shape[0])
    return pur_latent_cond(P, V).sum(axis=1) @ A


def pur_cond_v_given_ha(P, Hq, Aq):
    """P(v_i = 1 | h, a) for paired rows (Hq[r], Aq[r]) -> (R, nv)"""
    nv = P["W"].shape[1]
    V = space(nv)
    out = np.zeros((len(Hq), nv))
    for r in range(len(Hq)):
        w = pur_neg_energy(P, V, Hq[r:r + 1], Aq[r:r + 1])[:, 0, 0]
        w = np.exp(w - w.max())
        w /= w.sum()
        out[r] = w @ V
    return out


def pur_kernel(P):
    nh, nv = P["W"].shape
    na = P["U"].shape[0]
    V, H, A = space(nv), space(nh), space(na)
    lat = pur_latent_cond(P, V).reshape(len(V), -1)  # (2^nv, 2^nh*2^na)
    w = pur_neg_energy(P, V, H, A).reshape(len(V), -1).T  # (lat, 2^nv)
    w = np.exp(w - w.max(axis=1, keepdims=True))
    pv = w / w.sum(axis=1, keepdims=True)
    return lat @ pv


# --------------------------------------------------------------------------
# states
# --------------------------------------------------------------------------
def wavefunction(am, ph, n):
    """psi(v) = sqrt(p_am(v)) * exp(i/2 * log p_ph(v)); ph=None -> positive."""
    V = space(n)
    la = rbm_log_marginal(am, V)
    if ph is None:
        return np.exp(0.5 * la).astype(complex), la
    lp = rbm_log_marginal(ph, V)
    return np.exp(0.5 * la + 0.5j * lp), la


def purified_psi(am, ph, n):
    """psi(sigma, a) = sqrt(sum_h e^{-E_am(sigma,h,a)}) * exp(i/2 log sum_h e^{-E_ph(sigma,h,a)})"""
    V = space(n)
    A = space(am["U"].shape[0])
    la = pur_log_marginal_va(am, V, A)
    lp = pur_log_marginal_va(ph, V, A)
    return np.exp(0.5 * la + 0.5j * lp), la


def density_matrix(am, ph, n):
    """rho = sum_a psi(.,a) psi(.,a)^dagger, and the cancellation scale
    S_ij = sum_a |psi(i,a)||psi(j,a)|."""
    psi, _ = purified_psi(am, ph, n)
    rho = psi @ psi.conj().T
    S = np.abs(psi) @ np.abs(psi).T
    return rho, S


def state_dense(kind, am, ph, n):
    """('pure', psi) or ('mixed', rho) unnormalised."""
    if kind == "positive":
        return "pure", wavefunction(am, None, n)[0]
    if kind == "complex":
        return "pure", wavefunction(am, ph, n)[0]
    return "mixed", density_matrix(am, ph, n)[0]


def as_rho(kind_dense, obj):
    return np.outer(obj, obj.conj()) if kind_dense == "pure" else obj


def born(kind_dense, obj, basis, udict=None):
    """unnormalised Born probabilities of all outcomes in `basis` + cancellation scale."""
    U = basis_unitary(basis, udict)
    if kind_dense == "pure":
        amp = U @ obj
        scale = np.abs(U) @ np.abs(obj)
        return np.abs(amp) ** 2, scale ** 2
    r = U @ obj @ U.conj().T
    scale = np.abs(U) @ np.abs(obj) @ np.abs(U).T
    return np.real(np.diag(r)), np.real(np.diag(scale))


# --------------------------------------------------------------------------
# operators
# --------------------------------------------------------------------------
def site_op(op, i, n):
    return kron_all([op if j == i else I2 for j in range(n)])


def magnetisation(op, n):
    return sum(site_op(op, i, n) for i in range(n)) / n


def zz_interaction(n, c, periodic):
    tot = np.zeros((2 ** n, 2 ** n), dtype=complex)
    if periodic:
        pairs = [(i, (i + c) % n) for i in range(n)]
    else:
        pairs = [(i, i + c) for i in range(n - c)]
    for i, j in pairs:
        tot = tot + site_op(SZ, i, n) @ site_op(SZ, j, n)
    return tot / n


def reduced(rho, n, A):
    """partial trace keeping the sites in A (list of ints)."""
    A = sorted(set(int(a) for a in A))
    B = [i for i in range(n) if i not in A]
    t = rho.reshape([2] * (2 * n))
    # axes: row sites 0..n-1, col sites n..2n-1
    perm = A + B + [n + a for a in A] + [n + b for b in B]
    t = t.transpose(perm).reshape(2 ** len(A), 2 ** len(B), 2 ** len(A), 2 ** len(B))
    return np.einsum("ibjb->ij", t)


def psd_sqrt(m):
    w, v = np.linalg.eigh((m + m.conj().T) / 2)
    w = np.clip(w, 0, None)
    return (v * np.sqrt(w)) @ v.conj().T


def uhlmann(rho, sigma):
    s = psd_sqrt(rho)
    m = s @ sigma @ s
    w = np.linalg.eigvalsh((m + m.conj().T) / 2)
    return float(np.sum(np.sqrt(np.clip(w, 0, None))) ** 2)


# --------------------------------------------------------------------------
# torch autograd versions (for gradient oracles)
# --------------------------------------------------------------------------
def t_space(n):
    return torch.tensor(space(n), dtype=RD)


def t_rbm_log_marginal(W, b, c, V):
    H = t_space(W.shape[0])
    e = (V @ b)[:, None] + (H @ c)[None, :] + V @ W.T @ H.T
    return torch.logsumexp(e, dim=1)


def t_pur_log_marginal_va(W, U, b, c, d, V, A):
    H = t_space(W.shape[0])
    e = (V @ b)[:, None, None] + (H @ c)[None, :, None] + (A @ d)[None, None, :]
    e = e + (V @ W.T @ H.T)[:, :, None] + (V @ U.T @ A.T)[:, None, :]
    return torch.logsumexp(e, dim=1)


def t_params(P):
    """numpy dict -> dict of leaf tensors requiring grad"""
    return {k: torch.tensor(np.asarray(v), dtype=RD, requires_grad=True) for k, v in P.items()}


def t_state(kind, am, ph, n):
    """am/ph: dicts of torch leaves. returns ('pure', psi) / ('mixed', rho)"""
    V = t_space(n)
    if kind == "positive":
        la = t_rbm_log_marginal(am["W"], am["b"], am["c"], V)
        return "pure", torch.exp(0.5 * la).to(CD)
    if kind == "complex":
        la = t_rbm_log_marginal(am["W"], am["b"], am["c"], V)
        lp = t_rbm_log_marginal(ph["W"], ph["b"], ph["c"], V)
        return "pure", torch.exp(0.5 * la.to(CD) + 0.5j * lp.to(CD))
    A = t_space(am["U"].shape[0])
    la = t_pur_log_marginal_va(am["W"], am["U"], am["b"], am["c"], am["d"], V, A)
    lp = t_pur_log_marginal_va(ph["W"], ph["U"], ph["b"], ph["c"], ph["d"], V, A)
    psi = torch.exp(0.5 * la.to(CD) + 0.5j * lp.to(CD))
    return "mixed", psi @ psi.conj().T


def t_born_all(kd, obj, basis, udict=None):
    U = torch.tensor(basis_unitary(basis, udict), dtype=CD)
    if kd == "pure":
        a = U @ obj
        return (a * a.conj()).real
    return torch.diagonal(U @ obj @ U.conj().T).real


def t_sum_neg_log_p(kind, am, ph, n, samples, bases, reg=0.0, udict=None, reg_rotated_only=False):
    """sum_i -log(p~(sigma_i | b_i) + reg), unnormalised Born probabilities.
    reg_rotated_only: apply the regulariser only to rows whose basis is not all-Z
    (what the library does: reference-basis rows use the exact energy gradient)."""
    kd, obj = t_state(kind, am, ph, n)
    total = torch.zeros((), dtype=RD)
    cache = {}
    for s, b in zip(samples, bases):
        b = "".join(b)
        if b not in cache:
            cache[b] = t_born_all(kd, obj, b, udict)
        r = 0.0 if (reg_rotated_only and set(b) <= {"Z"}) else reg
        total = total - torch.log(cache[b][index_of(s)] + r)
    return total


def t_log_Z(kind, am, ph, n):
    kd, obj = t_state(kind, am, ph, n)
    if kd == "pure":
        return torch.log((obj * obj.conj()).real.sum())
    return torch.log(torch.diagonal(obj).real.sum())


def grads_of(scalar, am, ph):
    """returns {'am': {name: grad}, 'ph': {...}} (zeros where unused)."""
    leaves, keys = [], []
    for tag, P in (("am", am), ("ph", ph)):
        if P is None:
            continue
        for k, v in P.items():
            leaves.append(v)
            keys.append((tag, k))
    gs = torch.autograd.grad(scalar, leaves, allow_unused=True)
    out = {"am": {}, "ph": {}}
    for (tag, k), g, leaf in zip(keys, gs, leaves):
        out[tag][k] = (torch.zeros_like(leaf) if g is None else g).detach().numpy()
    return out
