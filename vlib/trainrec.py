"""L1 boundary recorders for training runs: one global ordered event log fed by
a recording optimizer / scheduler (public optimizer= / scheduler= arguments),
recording callbacks (public callback API) and instance wrappers on
compute_batch_gradients / rbm_am.gibbs_steps."""
import numpy as np
import torch

from . import monitors


class Log(list):
    def add(self, typ, **kw):
        kw["type"] = typ
        kw["i"] = len(self)
        self.append(kw)
        return kw


def make_recording_sgd(log, state, base=torch.optim.SGD):
    """returns an optimizer *class* (what fit expects) that logs every step."""

    class RecordingOpt(base):
        def __init__(self, params, **kw):
            params = list(params)
            log.add("opt_init", kwargs={k: v for k, v in kw.items()}, n_params=len(params),
                    param_ids=[id(p) for p in params])
            super().__init__(params, **kw)

        def zero_grad(self, *a, **k):
            log.add("zero_grad")
            return super().zero_grad(*a, **k)

        def step(self, *a, **k):
            names = {id(p): n for n, p in monitors.params_of(state).items()}
            rec = {"grads": {}, "before": {}, "after": {}, "lr": {}, "unknown_params": 0}
            for g in self.param_groups:
                for p in g["params"]:
                    n = names.get(id(p))
                    if n is None:
                        rec["unknown_params"] += 1
                        continue
                    rec["grads"][n] = None if p.grad is None else p.grad.detach().clone()
                    rec["before"][n] = p.data.detach().clone()
                    rec["lr"][n] = float(g["lr"])
            r = super().step(*a, **k)
            for g in self.param_groups:
                for p in g["params"]:
                    n = names.get(id(p))
                    if n is not None:
                        rec["after"][n] = p.data.detach().clone()
            log.add("opt_step", **rec)
            return r

    return RecordingOpt


def make_recording_scheduler(log, base=torch.optim.lr_scheduler.StepLR):
    class RecordingSched(base):
        def __init__(self, optimizer, **kw):
            self._in_ctor = True
            log.add("sched_init", kwargs=dict(kw))
            super().__init__(optimizer, **kw)
            self._in_ctor = False

        def step(self, *a, **k):
            r = super().step(*a, **k)
            log.add("sched_step", ctor=bool(getattr(self, "_in_ctor", False)),
                    lrs=[float(g["lr"]) for g in self.optimizer.param_groups])
            return r

    return RecordingSched


def recorder_callback(log, state_ref=None, cb_id=0, stop_at=None, digest_params=True, extra=None):
    """A CallbackBase subclass instance that logs every event.  stop_at: (event
    ordinal among this callback's own events) at which it sets stop_training."""
    from qucumber.callbacks import CallbackBase

    class Rec(CallbackBase):
        def __init__(self):
            self.n = 0

        def _ev(self, name, st, epoch=None, batch=None):
            if stop_at is not None and self.n == stop_at:
                st.stop_training = True
            self.n += 1
            e = log.add("cb", cb=cb_id, event=name, epoch=epoch, batch=batch, stop=bool(st.stop_training),
                        pd=monitors.params_digest(st) if digest_params else None)
            if extra is not None:
                extra(e, st)

        def on_train_start(self, st):
            self._ev("train_start", st)

        def on_train_end(self, st):
            self._ev("train_end", st)

        def on_epoch_start(self, st, ep):
            self._ev("epoch_start", st, ep)

        def on_epoch_end(self, st, ep):
            self._ev("epoch_end", st, ep)

        def on_batch_start(self, st, ep, b):
            self._ev("batch_start", st, ep, b)

        def on_batch_end(self, st, ep, b):
            self._ev("batch_end", st, ep, b)

    return Rec()


def instrument_state(state, log):
    """instance wrappers: compute_batch_gradients and rbm_am.gibbs_steps."""
    orig_cbg = state.compute_batch_gradients

    def cbg(*a, **k):
        ev = log.add("cbg_call", args=[monitors.clone_arg(x) for x in a],
                     kwargs={kk: monitors.clone_arg(v) for kk, v in k.items()})
        r = orig_cbg(*a, **k)
        log.add("cbg_ret", call=ev["i"], result=[monitors.clone_arg(x) for x in r] if isinstance(r, (list, tuple)) else r)
        return r

    object.__setattr__(state, "compute_batch_gradients", cbg)
    rbm = state.rbm_am
    orig_gs = rbm.gibbs_steps

    def gs(*a, **k):
        ev = log.add("gibbs_call", args=[monitors.clone_arg(x) for x in a],
                     kwargs={kk: monitors.clone_arg(v) for kk, v in k.items()})
        r = orig_gs(*a, **k)
        log.add("gibbs_ret", call=ev["i"], result=monitors.clone_arg(r))
        return r

    object.__setattr__(rbm, "gibbs_steps", gs)

    def undo():
        try:
            object.__delattr__(state, "compute_batch_gradients")
        except AttributeError:
            pass
        try:
            object.__delattr__(rbm, "gibbs_steps")
        except AttributeError:
            pass

    return undo


def unique_rows(rng, N, n):
    """N pairwise distinct n-bit rows (requires N <= 2^n)."""
    idx = rng.choice(2 ** n, size=N, replace=False)
    return np.array([[(i >> (n - 1 - j)) & 1 for j in range(n)] for i in idx], dtype=float)


CONTAINER_FORMS = ["list", "tuple", "CallbackList", "generator", "iterator", "filter"]


def as_container(cbs, form):
    """The same callbacks handed to fit() in another container: fit() documents a list, but takes whatever CallbackList(...)
    can iterate over - including one-shot iterables, which must not be consumed before they are used."""
    if form == "tuple":
        return tuple(cbs)
    if form == "CallbackList":
        from qucumber.callbacks import CallbackList

        return CallbackList(list(cbs))
    if form == "generator":
        return (c for c in cbs)
    if form == "iterator":
        return iter(list(cbs))
    if form == "filter":
        return filter(lambda c: c is not None, list(cbs))
    return list(cbs)
