"""L2 - runtime contracts on the real functions (icontract postconditions that
*record* and return True, so that a broken callee never aborts the library
computation that is being observed; the check reads the recorder afterwards).

Contracts are installed on module attributes, which callers resolve at call
time (`cplx.f(...)`, `unitaries.f(...)`); `training_statistics` binds three
rotation functions by name, they are re-bound explicitly.
"""
import functools
import traceback

import icontract
import numpy as np
import torch

from . import refmodel as R

EPS64 = np.finfo(np.float64).eps
EPS32 = np.finfo(np.float32).eps


class Recorder:
    def __init__(self):
        self.evals = {}
        self.alerts = []
        self.shapes = set()

    def hit(self, name):
        self.evals[name] = self.evals.get(name, 0) + 1

    def alert(self, name, msg, **w):
        if len(self.alerts) < 50:
            self.alerts.append({"contract": name, "msg": msg[:1500], "witness": w,
                                "stack": "".join(traceback.format_stack(limit=16)[:-3])[-2500:]})

    def drain(self):
        a, self.alerts = self.alerts, []
        return a


REC = Recorder()


def dec(t):
    a = t.detach().cpu().numpy()
    return a[0].astype(np.complex128) + 1j * a[1].astype(np.complex128)


def _eps(*ts):
    lo = EPS64
    for t in ts:
        if isinstance(t, torch.Tensor) and t.dtype == torch.float32:
            lo = EPS32
    return lo


def _parts(op, a, b):
    """Component-wise cancellation scales of a bilinear complex operation op(a, b): each component of the result is a sum of
    two real products and is accurate relative to ITS OWN terms (what native complex arithmetic gives) - a real part of
    1e8 does not excuse an error of 1e-8 in an imaginary part of 1e-8."""
    ar, ai, br, bi = np.abs(a.real), np.abs(a.imag), np.abs(b.real), np.abs(b.imag)
    return op(ar, br) + op(ai, bi), op(ar, bi) + op(ai, br)


def _cmp(name, got, want, scale, eps, what=""):
    got = np.asarray(got)
    want = np.asarray(want)
    if isinstance(scale, tuple):  # (scale of the real part, scale of the imaginary part)
        if got.shape != want.shape:
            REC.alert(name, f"{what} shape {got.shape} != expected {want.shape}")
            return
        _cmp(name, got.real, want.real, scale[0], eps, (what + " real part").strip())
        _cmp(name, got.imag, want.imag, scale[1], eps, (what + " imaginary part").strip())
        return
    if got.shape != want.shape:
        REC.alert(name, f"{what} shape {got.shape} != expected {want.shape}")
        return
    if not np.all(np.isfinite(want)):
        return  # outside the representable range of the reference itself: no verdict
    tol = 50 * eps * np.asarray(scale) + 1e-300
    d = np.abs(got - want)
    if np.any(~(d <= tol)):
        i = np.unravel_index(int(np.nanargmax(np.where(np.isnan(d), np.inf, d) - tol)), d.shape) if d.ndim else ()
        REC.alert(name, f"{what} entry {i}: got {got[i]!r}, complex arithmetic gives {want[i]!r} "
                        f"(|diff|={d[i]!r}, tol={np.broadcast_to(tol, d.shape)[i]!r})")


def _rank_key(name, *ts):
    REC.shapes.add((name,) + tuple(tuple(t.shape) if isinstance(t, torch.Tensor) else () for t in ts))


# ------------------------------------------------------------------ cplx
def install_cplx(cplx):
    if getattr(cplx, "_verif_contracts", False):
        return
    cplx._verif_contracts = True

    def ens(name, cond):
        orig = getattr(cplx, name)

        @functools.wraps(cond)
        def guarded(**kw):
            REC.hit("cplx." + name)
            try:
                cond(**kw)
            except Exception as e:  # noqa: BLE001  oracle trouble is never a verdict
                REC.alert("cplx." + name, f"HARNESS oracle error {type(e).__name__}: {e}", harness=True)
            return True

        # icontract binds condition arguments by name
        import inspect

        guarded.__signature__ = inspect.signature(cond)
        setattr(cplx, name, icontract.ensure(guarded)(orig))

    def post_make_complex(x, y, result):
        if isinstance(x, np.ndarray):
            _cmp("cplx.make_complex", dec(result), x.astype(np.complex128), np.abs(x), EPS64)
        else:
            yy = np.zeros_like(x.detach().numpy()) if y is None else y.detach().numpy()
            _cmp("cplx.make_complex", dec(result), x.detach().numpy() + 1j * yy, 0.0, EPS64)

    def post_numpy(x, result):
        _cmp("cplx.numpy", result, dec(x), 0.0, EPS64)

    def post_real(x, result):
        _cmp("cplx.real", result.detach().numpy(), dec(x).real, 0.0, EPS64)

    def post_imag(x, result):
        _cmp("cplx.imag", result.detach().numpy(), dec(x).imag, 0.0, EPS64)

    def post_scalar_mult(x, y, out, result):
        a, b = dec(x), dec(y)
        _rank_key("scalar_mult", x, y)
        _cmp("cplx.scalar_mult", dec(result), a * b, _parts(np.multiply, a, b), _eps(x, y))
        if out is not None and result is not out:
            REC.alert("cplx.scalar_mult", "out= buffer given but a different tensor returned")

    def post_matmul(x, y, result):
        a, b = dec(x), dec(y)
        _rank_key("matmul", x, y)
        _cmp("cplx.matmul", dec(result), a @ b, _parts(np.matmul, a, b), _eps(x, y))

    def post_inner_prod(x, y, result):
        a, b = dec(x), dec(y)
        _rank_key("inner_prod", x, y)
        if a.ndim == 1:
            _cmp("cplx.inner_prod", dec(result), np.vdot(a, b), _parts(np.matmul, a, b), _eps(x, y))
        else:
            _cmp("cplx.inner_prod", dec(result), np.conj(a) * b, _parts(np.multiply, a, b), _eps(x, y))

    def post_outer_prod(x, y, result):
        a, b = dec(x), dec(y)
        _cmp("cplx.outer_prod", dec(result), np.outer(a, np.conj(b)), _parts(np.outer, a, b), _eps(x, y))

    def post_einsum(equation, a, b, real_part, imag_part, result):
        A, B = dec(a), dec(b)
        _rank_key("einsum:" + equation, a, b)
        want = np.einsum(equation, A, B)
        scale = _parts(lambda p_, q_: np.einsum(equation, p_, q_), A, B)
        e = _eps(a, b)
        if real_part and imag_part:
            _cmp("cplx.einsum", dec(result), want, scale, e)
        elif real_part:
            _cmp("cplx.einsum", result.detach().numpy(), want.real, scale[0], e, "real part")
        elif imag_part:
            _cmp("cplx.einsum", result.detach().numpy(), want.imag, scale[1], e, "imag part")
        elif result is not None:
            REC.alert("cplx.einsum", "neither part requested but a value was returned")

    def post_conjugate(x, result):
        a = dec(x)
        _rank_key("conjugate", x)
        want = np.conj(a) if a.ndim < 2 else np.conj(np.swapaxes(a, 0, 1))
        _cmp("cplx.conjugate", dec(result), want, 0.0, EPS64)

    def post_conj(x, result):
        _cmp("cplx.conj", dec(result), np.conj(dec(x)), 0.0, EPS64)

    def post_elementwise_mult(x, y, result):
        a, b = dec(x), dec(y)
        _cmp("cplx.elementwise_mult", dec(result), a * b, _parts(np.multiply, a, b), _eps(x, y))

    def post_elementwise_division(x, y, result):
        a, b = dec(x), dec(y)
        with np.errstate(all="ignore"):
            want = a / b
        _cmp("cplx.elementwise_division", dec(result), want, np.abs(want), _eps(x, y))

    def post_absolute_value(x, result):
        a = dec(x)
        _cmp("cplx.absolute_value", result.detach().numpy(), np.abs(a), np.abs(a), _eps(x))

    def post_kronecker_prod(x, y, result):
        a, b = dec(x), dec(y)
        _cmp("cplx.kronecker_prod", dec(result), np.kron(a, b), _parts(np.kron, a, b), _eps(x, y))

    def post_sigmoid(x, y, result):
        z = x.detach().numpy().astype(np.float64) + 1j * y.detach().numpy().astype(np.float64)
        if np.any(np.abs(z.real) > 340):
            return  # documented range note (DESIGN C15): formula overflows beyond
        # numerically stable evaluation, different route from the library's e^z/(1+e^z)
        want = np.where(z.real > 0, 1 / (1 + np.exp(-z)), np.exp(z) / (1 + np.exp(z)))
        den = np.abs(1 + np.exp(-np.abs(z.real) + 1j * z.imag * np.sign(z.real + 1e-300)))
        _cmp("cplx.sigmoid", dec(result), want, np.abs(want) * (1 + 1 / np.maximum(den, 1e-300)), EPS64)

    def post_scalar_divide(x, y, result):
        a, b = dec(x), dec(y)
        with np.errstate(all="ignore"):
            want = a / b
        _cmp("cplx.scalar_divide", dec(result), want, np.abs(want), _eps(x, y))

    def post_inverse(z, result):
        a = dec(z)
        with np.errstate(all="ignore"):
            want = 1 / a
        _cmp("cplx.inverse", dec(result), want, np.abs(want), _eps(z))

    def post_norm_sqr(x, result):
        a = dec(x)
        _cmp("cplx.norm_sqr", result.detach().numpy(), np.sum(np.abs(a) ** 2), np.sum(np.abs(a) ** 2), _eps(x))

    def post_norm(x, result):
        a = dec(x)
        _cmp("cplx.norm", result.detach().numpy(), np.sqrt(np.sum(np.abs(a) ** 2)),
             np.sqrt(np.sum(np.abs(a) ** 2)), _eps(x))

    for name, cond in [
        ("make_complex", post_make_complex), ("numpy", post_numpy), ("real", post_real), ("imag", post_imag),
        ("scalar_mult", post_scalar_mult), ("matmul", post_matmul), ("inner_prod", post_inner_prod),
        ("outer_prod", post_outer_prod), ("einsum", post_einsum), ("conjugate", post_conjugate),
        ("conj", post_conj), ("elementwise_mult", post_elementwise_mult),
        ("elementwise_division", post_elementwise_division), ("absolute_value", post_absolute_value),
        ("kronecker_prod", post_kronecker_prod), ("sigmoid", post_sigmoid),
        ("scalar_divide", post_scalar_divide), ("inverse", post_inverse), ("norm_sqr", post_norm_sqr),
        ("norm", post_norm),
    ]:
        if hasattr(cplx, name):
            ens(name, cond)


# ------------------------------------------------------------- unitaries
class _NoDictionary(Exception):
    pass


def _udict_dense(nn_state, unitaries):
    if not unitaries and not hasattr(nn_state, "unitary_dict"):
        # a state without a dictionary of its own: the documented default (Pauli eigenbases)
        return dict(R.PAULI_BASIS)
    d = unitaries if unitaries else nn_state.unitary_dict
    return {k: dec(v) for k, v in d.items()}


def _idx(states):
    s = states.detach().numpy()
    s = s.reshape(-1, s.shape[-1])
    return np.array([R.index_of(r) for r in s])


def install_unitaries(unitaries_mod, rebind_modules=()):
    """Hand-written record-and-check wrappers (the rotation functions take the
    state object itself; the postcondition needs calls on it, which is easier
    to keep re-entrancy-safe by hand than through icontract)."""
    if getattr(unitaries_mod, "_verif_contracts", False):
        return
    unitaries_mod._verif_contracts = True
    depth = {"n": 0}

    def wrap(name, post):
        orig = getattr(unitaries_mod, name)

        @functools.wraps(orig)
        def w(*a, **k):
            if depth["n"]:
                return orig(*a, **k)
            pre = None
            depth["n"] += 1
            try:
                pre = post(None, a, k, stage="pre")
            except _NoDictionary:
                pre = None
            except Exception as e:  # noqa: BLE001
                REC.alert("unitaries." + name, f"HARNESS oracle error {type(e).__name__}: {e}", harness=True)
            finally:
                depth["n"] -= 1
            r = orig(*a, **k)
            depth["n"] += 1
            try:
                REC.hit("unitaries." + name)
                if pre is not None:
                    post(r, a, k, stage="post", pre=pre)
            except Exception as e:  # noqa: BLE001
                REC.alert("unitaries." + name, f"HARNESS oracle error {type(e).__name__}: {e}\n"
                          + traceback.format_exc()[-800:], harness=True)
            finally:
                depth["n"] -= 1
            return r

        setattr(unitaries_mod, name, w)
        for m in rebind_modules:
            if getattr(m, name, None) is orig:
                setattr(m, name, w)

    def bind(fn_args, a, k):
        import inspect

        names = fn_args
        d = dict(zip(names, a))
        d.update(k)
        return d

    def post_rotate_psi(r, a, k, stage, pre=None):
        d = bind(["nn_state", "basis", "space", "unitaries", "psi"], a, k)
        if stage == "pre":
            st = d["nn_state"]
            psi = dec(st.psi(d["space"])) if d.get("psi") is None else dec(d["psi"].to(torch.double))
            U = R.basis_unitary("".join(d["basis"]), _udict_dense(st, d.get("unitaries")))
            return {"want": U @ psi, "scale": np.abs(U) @ np.abs(psi), "path": "model" if d.get("psi") is None else "explicit"}
        REC.shapes.add(("rotate_psi", pre["path"], "".join(d["basis"])))
        _cmp("unitaries.rotate_psi", dec(r), pre["want"], pre["scale"] * 20, EPS64, f"basis {''.join(d['basis'])} ({pre['path']})")

    def post_rotate_rho(r, a, k, stage, pre=None):
        d = bind(["nn_state", "basis", "space", "unitaries", "rho"], a, k)
        if stage == "pre":
            st = d["nn_state"]
            rho = dec(st.rho(d["space"], d["space"])) if d.get("rho") is None else dec(d["rho"].to(torch.double))
            U = R.basis_unitary("".join(d["basis"]), _udict_dense(st, d.get("unitaries")))
            herm = np.allclose(rho, rho.conj().T, rtol=1e-10, atol=1e-12 * np.abs(rho).max())
            return {"want": U @ rho @ U.conj().T, "scale": np.abs(U) @ np.abs(rho) @ np.abs(U).T, "herm": herm,
                    "path": "model" if d.get("rho") is None else "explicit"}
        if not pre["herm"]:
            return  # non-Hermitian input is not a density-matrix use case (DESIGN C04)
        REC.shapes.add(("rotate_rho", pre["path"], "".join(d["basis"])))
        _cmp("unitaries.rotate_rho", dec(r), pre["want"], pre["scale"] * 20, EPS64, f"basis {''.join(d['basis'])} ({pre['path']})")

    def post_inner(r, a, k, stage, pre=None):
        d = bind(["nn_state", "basis", "states", "unitaries", "psi", "include_extras"], a, k)
        if stage == "pre":
            st = d["nn_state"]
            n = d["states"].shape[-1]
            sp = torch.tensor(R.space(n), dtype=torch.double)
            psi = dec(st.psi(sp)) if d.get("psi") is None else dec(d["psi"].to(torch.double))
            U = R.basis_unitary("".join(d["basis"]), _udict_dense(st, d.get("unitaries")))
            ix = _idx(d["states"])
            return {"want": (U @ psi)[ix], "scale": (np.abs(U) @ np.abs(psi))[ix],
                    "path": "model" if d.get("psi") is None else "explicit", "one": d["states"].dim() < 2}
        out = r[0] if d.get("include_extras") else r
        got = dec(out).reshape(-1)
        REC.shapes.add(("rotate_psi_inner_prod", pre["path"], "".join(d["basis"]), bool(d.get("include_extras"))))
        _cmp("unitaries.rotate_psi_inner_prod", got, pre["want"], pre["scale"] * 20, EPS64,
             f"basis {''.join(d['basis'])} ({pre['path']})")

    def post_probs(r, a, k, stage, pre=None):
        d = bind(["nn_state", "basis", "states", "unitaries", "rho", "include_extras"], a, k)
        if stage == "pre":
            st = d["nn_state"]
            n = d["states"].shape[-1]
            sp = torch.tensor(R.space(n), dtype=torch.double)
            rho = dec(st.rho(sp, sp)) if d.get("rho") is None else dec(d["rho"].to(torch.double))
            U = R.basis_unitary("".join(d["basis"]), _udict_dense(st, d.get("unitaries")))
            ix = _idx(d["states"])
            full = np.real(np.diag(U @ rho @ U.conj().T))
            sc = np.real(np.diag(np.abs(U) @ np.abs(rho) @ np.abs(U).T))
            herm = np.allclose(rho, rho.conj().T, rtol=1e-10, atol=1e-12 * np.abs(rho).max())
            return {"want": full[ix], "scale": sc[ix], "herm": herm,
                    "path": "model" if d.get("rho") is None else "explicit",
                    "hasY": any(np.abs(np.imag(_udict_dense(st, d.get("unitaries"))[b])).max() > 0 for b in d["basis"])}
        if not pre["herm"]:
            return
        out = r[0] if d.get("include_extras") else r
        got = out.detach().numpy().reshape(-1)
        REC.shapes.add(("rotate_rho_probs", pre["path"], "".join(d["basis"]), bool(d.get("include_extras"))))
        n0 = len(REC.alerts)
        _cmp("unitaries.rotate_rho_probs", got, pre["want"], pre["scale"] * 20, EPS64,
             f"basis {''.join(d['basis'])} ({pre['path']})")
        for al in REC.alerts[n0:]:
            al["witness"].update(path=pre["path"], nonreal_unitary=pre["hasY"])

    wrap("rotate_psi", post_rotate_psi)
    wrap("rotate_rho", post_rotate_rho)
    wrap("rotate_psi_inner_prod", post_inner)
    wrap("rotate_rho_probs", post_probs)
