"""History executor for C14 (used in-process by the worker under the RNG / write
monitors, and by fresh child processes whose digests are compared)."""
import json
import os
import sys
import tempfile

import numpy as np

SEED_FORMS = ["cpu_kw", "gpu_true", "positional", "defaults"]
READ_ONLY = {"sample", "sample_cont", "statistics", "apply", "metrics", "rotate", "gradient", "save", "psi", "refused", "batchgrad"}


class GlobalConfigLeak(RuntimeError):
    """a library operation left process-wide torch / numpy configuration changed"""


def global_config():
    import torch

    return {"torch default dtype": str(torch.get_default_dtype()), "grad enabled": torch.is_grad_enabled(),
            "deterministic algorithms": torch.are_deterministic_algorithms_enabled(),
            "numpy errstate": tuple(sorted(np.geterr().items())),
            "numpy print precision": np.get_printoptions().get("precision")}


def make_spec(rng, hid, seed_value):
    kind = ["positive", "complex", "mixed"][hid % 3]
    nv = int(rng.integers(3, 5))
    ops = ["construct"]
    pool = ["reinit", "sample", "sample_cont", "statistics", "apply", "metrics", "rotate", "gradient", "save", "fit", "psi", "fit",
            "setparams", "fit_cb", "refused", "batchgrad"]
    n = int(rng.integers(5, 10))
    for _ in range(n):
        ops.append(pool[int(rng.integers(0, len(pool)))])
    if "sample" not in ops:
        ops.insert(1, "sample")
    if "fit" not in ops:
        ops.append("fit")
    return {"hid": hid, "kind": kind, "nv": nv, "nh": int(rng.integers(2, 4)), "na": int(rng.integers(1, 3)),
            "seed": int(seed_value), "ops": ops, "seed_form": SEED_FORMS[hid % len(SEED_FORMS)],
            "fit": {"N": int(rng.integers(4, 12)), "pos": int(rng.integers(2, 6)), "neg": [None, 2, 5][int(rng.integers(0, 3))],
                    "k": int(rng.integers(0, 3)), "epochs": int(rng.integers(1, 3)), "lr": float(rng.choice([0.01, 0.1]))},
            "data_seed": int(rng.integers(0, 2 ** 31 - 1))}


def run_history(spec, perturb=None, hooks=None):
    """returns list of [opname, digest]; perturb(i) is called between operations;
    hooks: object with before(op, state) / after(op, state) or None."""
    import torch
    import qucumber
    from qucumber.nn_states import ComplexWaveFunction, DensityMatrix, PositiveWaveFunction
    from qucumber.observables import SWAP, NeighbourInteraction, SigmaX, SigmaY, SigmaZ
    from qucumber.utils import training_statistics as ts
    from qucumber.utils import unitaries

    from .monitors import digest, params_digest

    out = []
    kind, nv = spec["kind"], spec["nv"]
    drng = np.random.Generator(np.random.PCG64(spec["data_seed"]))  # harness-owned stream: never the global numpy state
    V = np.array([[(i >> (nv - 1 - j)) & 1 for j in range(nv)] for i in range(2 ** nv)], dtype=float)
    fc = spec["fit"]
    rows = V[drng.integers(0, 2 ** nv, size=fc["N"])]
    bases = None
    if kind != "positive":
        bases = drng.choice(list("XYZ"), size=(fc["N"], nv))
        bases[0] = "Z"
        bases[-1] = "Z"
        bases = np.array(bases, dtype=str)
    tz = drng.normal(size=2 ** nv) + 1j * drng.normal(size=2 ** nv)
    tz = tz / np.linalg.norm(tz)
    st = None
    last_samples = None
    import warnings as _w

    with _w.catch_warnings():
        _w.simplefilter("ignore")
        form = spec.get("seed_form", "cpu_kw")
        if form == "cpu_kw":
            qucumber.set_random_seed(spec["seed"], cpu=True, gpu=False, quiet=True)
        elif form == "gpu_true":  # also asking for GPU seeding must still seed the CPU generator
            qucumber.set_random_seed(spec["seed"], cpu=True, gpu=True, quiet=True)
        elif form == "positional":
            qucumber.set_random_seed(spec["seed"], True, True, True)
        else:
            qucumber.set_random_seed(spec["seed"])
    cfg0 = global_config()
    for i, op in enumerate(spec["ops"]):
        if perturb is not None:
            perturb(i)
        if hooks is not None and st is not None:
            hooks.before(op, st)
        if op == "construct":
            if kind == "positive":
                st = PositiveWaveFunction(nv, spec["nh"], gpu=False)
            elif kind == "complex":
                st = ComplexWaveFunction(nv, spec["nh"], gpu=False)
            else:
                st = DensityMatrix(nv, spec["nh"], spec["na"], gpu=False)
            d = params_digest(st)
        elif op == "reinit":
            st.reinitialize_parameters()
            d = params_digest(st)
        elif op == "setparams":
            # every named parameter (incl. the phase network's auxiliary bias) set by hand / as from a checkpoint
            for net in st.networks:
                for _, p_ in getattr(st, net).named_parameters():
                    p_.data.copy_(torch.tensor(drng.uniform(0.2, 1.0, size=tuple(p_.shape)) * drng.choice([-1.0, 1.0], size=tuple(p_.shape))))
            d = params_digest(st)
        elif op == "sample":
            last_samples = st.sample(3, num_samples=64)
            d = digest(last_samples)
        elif op == "sample_cont":
            if last_samples is None:
                last_samples = st.sample(1, num_samples=16)
            last_samples = st.sample(2, initial_state=last_samples, overwrite=False)
            d = digest(last_samples)
        elif op == "statistics":
            r = (2 * SigmaZ() + SigmaX()).statistics(st, num_samples=20, num_chains=6, burn_in=3, steps=1)
            r2 = SWAP([0]).statistics(st, num_samples=12, num_chains=4, burn_in=1, steps=1)
            d = digest([{k: float(v) for k, v in r.items()}, {k: float(v) for k, v in r2.items()}])
        elif op == "apply":
            s = last_samples if last_samples is not None else torch.tensor(V[:4], dtype=torch.double)
            d = digest([SigmaX().apply(st, s), NeighbourInteraction(c=1).apply(st, s), SWAP([0, nv - 1]).apply(st, s), SigmaY().apply(st, s)])
        elif op == "psi":
            sp = st.generate_hilbert_space()
            d = digest([st.probability(sp), st.normalization(sp)])
        elif op == "metrics":
            sp = st.generate_hilbert_space()
            if kind == "mixed":
                m = np.outer(tz, tz.conj())
                tgt = torch.tensor(np.stack([m.real, m.imag]), dtype=torch.double)
            else:
                tgt = torch.tensor(np.stack([tz.real, tz.imag]), dtype=torch.double)
            # the target also as a dictionary of pre-rotated states over five bases (sums over several bases must not depend on
            # the order a hash-salted container happens to iterate in)
            blist = ["X" * nv, "Z" * nv, "Y" * nv, "XY" + "Z" * (nv - 2), "ZX" + "Y" * (nv - 2)]
            if kind == "mixed":
                tdict = {b_: unitaries.rotate_rho(st, b_, sp, rho=tgt) for b_ in blist}
            else:
                tdict = {b_: unitaries.rotate_psi(st, b_, sp, psi=tgt) for b_ in blist}
            vals = [float(ts.fidelity(st, tgt, space=sp)), float(ts.KL(st, tgt, space=sp, bases=["X" * nv, "Z" * nv])),
                    float(ts.KL(st, tdict, space=sp, bases=blist)),
                    float(ts.NLL(st, torch.tensor(rows, dtype=torch.double), space=sp, sample_bases=bases))]
            d = digest(vals)
        elif op == "rotate":
            sp = st.generate_hilbert_space()
            b = "XY" + "Z" * (nv - 2)
            if kind == "mixed":
                d = digest(unitaries.rotate_rho(st, b, sp))
            else:
                d = digest(unitaries.rotate_psi(st, b, sp))
        elif op == "gradient":
            t = torch.tensor(rows, dtype=torch.double)
            g = st.gradient(t) if kind == "positive" else st.gradient(t, bases)
            d = digest([x for x in g if hasattr(x, "shape")])
        elif op == "batchgrad":
            # the public per-batch gradient (positive phase minus k-step negative phase) called directly, as a custom training
            # loop does: an evaluation - the caller's batches, which it goes on using, are left as they were
            t = torch.tensor(rows, dtype=torch.double)
            neg = t[: max(1, len(rows) // 2)].clone()
            keep_t, keep_n = t.clone(), neg.clone()
            g = st.compute_batch_gradients(2, t, neg) if kind == "positive" else st.compute_batch_gradients(2, t, neg, bases)
            if not (torch.equal(t, keep_t) and torch.equal(neg, keep_n)):
                raise RuntimeError("compute_batch_gradients modified the batches it was given (the caller's data / chain start rows)")
            d = digest([x for x in g if hasattr(x, "shape")])
        elif op == "save":
            fd, path = tempfile.mkstemp(suffix=".pt", dir="/var/tmp")
            os.close(fd)
            try:
                st.save(path, {"note": 1})
            finally:
                os.unlink(path)
            d = params_digest(st)
        elif op == "fit":
            kw = {} if bases is None else {"input_bases": bases}
            st.fit(torch.tensor(rows, dtype=torch.double), epochs=fc["epochs"], pos_batch_size=fc["pos"], neg_batch_size=fc["neg"],
                   k=fc["k"], lr=fc["lr"], **kw)
            d = params_digest(st)
        elif op == "fit_cb":
            # training with fresh evaluator / early-stopping callbacks (a second history in the same process must not
            # see anything left behind by an earlier one)
            from qucumber.callbacks import EarlyStopping, MetricEvaluator

            ev = MetricEvaluator(1, {"s": lambda s_: float(sum(float(p_.data.sum()) for p_ in s_.rbm_am.parameters()))})
            es = EarlyStopping(1, 1e-12, 2, ev, "s", criterion="absolute")
            kw = {} if bases is None else {"input_bases": bases}
            st._stop_training = False
            st.fit(torch.tensor(rows, dtype=torch.double), epochs=3, pos_batch_size=fc["pos"], k=fc["k"], lr=fc["lr"],
                   callbacks=[ev, es], **kw)
            st._stop_training = False
            d = digest([params_digest(st), [int(e) for e in ev.epochs], [float(v) for v in ev["s"]] if len(ev) else []])
        elif op == "refused":
            # calls the library refuses (invalid arguments): an error path must leave the model, the random stream and the
            # process-wide configuration exactly as they were
            from qucumber.observables import SigmaX as _SX, SigmaZ as _SZ
            from qucumber.utils import cplx as _cplx

            fd, path = tempfile.mkstemp(suffix=".pt", dir="/var/tmp")
            os.close(fd)
            attempts = [lambda: unitaries.create_dict(Q=[[1.0, 2.0], [3.0]]), lambda: unitaries.create_dict(Q=None),
                        lambda: unitaries.create_dict(Q=[[1.0, 0.0], [0.0, "a"]]),
                        lambda: st.save(path, {"rbm_am": 1}), lambda: _SX() * _SZ(), lambda: setattr(st, "stop_training", "yes"),
                        lambda: st.generate_hilbert_space(size=st.max_size + 1),
                        lambda: _cplx.inner_prod(torch.zeros(2, 3, dtype=torch.double), torch.zeros(2, 2, 2, dtype=torch.double)),
                        lambda: st.load(path + ".does-not-exist")]
            if kind != "positive":
                attempts.append(lambda: st.fit(torch.tensor(rows, dtype=torch.double), epochs=1, pos_batch_size=2))
            refused = 0
            try:
                for f_ in attempts:
                    try:
                        f_()
                    except Exception:  # noqa: BLE001
                        refused += 1
            finally:
                if os.path.exists(path):
                    os.unlink(path)
            st._stop_training = False
            d = digest([params_digest(st), refused])
        else:
            raise ValueError(op)
        cfg1 = global_config()
        if cfg1 != cfg0:
            changed = {k: (cfg0[k], cfg1[k]) for k in cfg0 if cfg0[k] != cfg1[k]}
            torch.set_default_dtype(torch.float32 if "float32" in cfg0["torch default dtype"] else torch.float64)
            torch.set_grad_enabled(cfg0["grad enabled"])
            raise GlobalConfigLeak(f"operation {i} ({op}) left process-wide configuration changed: {changed}")
        if hooks is not None and st is not None:
            hooks.after(op, st)
        out.append([op, d])
    return out


def child_main():
    """argv: spec-file mode(A|B).  prints JSON {hid: [[op, digest], ...]}"""
    path, mode = sys.argv[1], sys.argv[2]
    from . import bootstrap

    bootstrap.setup_env()
    import random

    specs = json.load(open(path))
    np.random.seed(111 if mode == "A" else 333)
    random.seed(222 if mode == "A" else 444)
    perturb = None
    if mode == "B":
        def perturb(i):
            np.random.rand(3 + i)
            random.random()
            np.random.seed(1000 + i)
            random.seed(2000 + i)
            hash("x%d" % i)
    res = {}
    for spec in specs:
        try:
            res[str(spec["hid"])] = run_history(spec, perturb=perturb)
        except Exception as e:  # noqa: BLE001
            import traceback

            res[str(spec["hid"])] = {"error": f"{type(e).__name__}: {e}", "tb": traceback.format_exc()[-1500:]}
    sys.stdout.write("\n@@RESULT@@" + json.dumps(res) + "\n")


if __name__ == "__main__":
    child_main()
