"""Seeded, stratified generators of models and inputs (DESIGN 2.3 ranges)."""
import numpy as np
import torch

from . import refmodel as R

KINDS = ["positive", "complex", "mixed"]
SCALES_FULL = [1e-3, 0.1, 0.5, 1.0, 3.0, 10.0, 30.0]
SCALES_MODERATE = [0.1, 0.5, 1.0, 2.0]
SCALES_SMALL = [0.1, 0.3, 0.7, 1.0]

BIN_NAMES = {"W": "weights", "b": "visible_bias", "c": "hidden_bias"}
PUR_NAMES = {"W": "weights_W", "U": "weights_U", "b": "visible_bias",
             "c": "hidden_bias", "d": "aux_bias"}
BIN_ORDER = ["W", "b", "c"]
PUR_ORDER = ["W", "U", "b", "c", "d"]


def _tensor(rng, shape, scale):
    mag = rng.uniform(0.2, 1.0, size=shape)
    sign = rng.choice([-1.0, 1.0], size=shape)
    return scale * mag * sign


def draw_net(rng, nv, nh, na=None, scales=SCALES_FULL, zero_d=False):
    pick = lambda: float(rng.choice(scales))  # noqa: E731
    P = {"W": _tensor(rng, (nh, nv), pick()), "b": _tensor(rng, (nv,), pick()),
         "c": _tensor(rng, (nh,), pick())}
    if na is not None:
        P["U"] = _tensor(rng, (na, nv), pick())
        P["d"] = np.zeros(na) if zero_d else _tensor(rng, (na,), pick())
        P = {k: P[k] for k in PUR_ORDER}
    return P


def energy_span(kind, am, n):
    V = R.space(n)
    lm = R.rbm_log_marginal(am, V) if kind != "mixed" else R.pur_log_marginal(am, V)
    return float(np.max(np.abs(lm)))


def aux_preact_max(am, n):
    V = R.space(n)
    pre = V @ am["U"].T  # (2^n, na)
    m = 0.0
    for i in range(len(V)):
        x = (pre[i][None, :] + pre) / 2 + am["d"][None, :]
        m = max(m, float(np.max(np.abs(x))))
    return m


def draw_model(rng, kind, nv, nh, na=None, scales=SCALES_FULL, max_energy=600.0,
               phase_aux_bias=False):
    """returns (am, ph) numpy parameter dicts inside the legitimate range."""
    mixed = kind == "mixed"
    am = draw_net(rng, nv, nh, na if mixed else None, scales)
    ph = None
    if kind != "positive":
        ph = draw_net(rng, nv, nh, na if mixed else None, scales,
                      zero_d=mixed and not phase_aux_bias)
    for _ in range(40):
        ok = energy_span(kind, am, nv) <= max_energy
        if ok and ph is not None:
            ok = energy_span(kind, ph, nv) <= max_energy
        if ok and mixed:
            ok = aux_preact_max(am, nv) <= 300.0
        if ok:
            break
        am = {k: v * 0.6 for k, v in am.items()}
        if ph is not None:
            ph = {k: v * 0.6 for k, v in ph.items()}
    return am, ph


def set_params(rbm, P):
    names = PUR_NAMES if "U" in P else BIN_NAMES
    for k, v in P.items():
        getattr(rbm, names[k]).data.copy_(torch.tensor(np.asarray(v), dtype=torch.double))


def get_params(rbm):
    names = PUR_NAMES if hasattr(rbm, "weights_U") else BIN_NAMES
    return {k: getattr(rbm, n).data.detach().clone().numpy() for k, n in names.items()}


def make_state(kind, am, ph, unitary_dict=None):
    from qucumber.nn_states import ComplexWaveFunction, DensityMatrix, PositiveWaveFunction

    nh, nv = am["W"].shape
    if kind == "positive":
        st = PositiveWaveFunction(nv, nh, gpu=False)
    elif kind == "complex":
        st = ComplexWaveFunction(nv, nh, unitary_dict=unitary_dict, gpu=False)
    else:
        st = DensityMatrix(nv, nh, am["U"].shape[0], unitary_dict=unitary_dict, gpu=False)
    set_params(st.rbm_am, am)
    if ph is not None:
        set_params(st.rbm_ph, ph)
    return st


IDIOMS = ["data.copy_", "data-assign", "load_state_dict", "copy_"]


def set_params_idiom(rbm, P, how):
    """write parameters into a live network through one of the usual torch idioms"""
    names = PUR_NAMES if "U" in P else BIN_NAMES
    if how == "data.copy_":
        set_params(rbm, P)
    elif how == "data-assign":
        for k, v in P.items():
            getattr(rbm, names[k]).data = torch.tensor(np.asarray(v), dtype=torch.double)
    elif how == "load_state_dict":
        rbm.load_state_dict({names[k]: torch.tensor(np.asarray(v), dtype=torch.double) for k, v in P.items()})
    else:
        with torch.no_grad():
            for k, v in P.items():
                getattr(rbm, names[k]).copy_(torch.tensor(np.asarray(v), dtype=torch.double))


def make_state_used(rng, kind, am, ph, warm, unitary_dict=None):
    """A state object that has ALREADY been used with other parameters (warm(state) exercises the API under test),
    and is then given the parameters (am, ph) through a random idiom.  Observable behaviour must depend on the
    current parameters only: this exposes stale caches / reused buffers keyed on the object rather than its values."""
    nh, nv = am["W"].shape
    na = am["U"].shape[0] if "U" in am else None
    am0, ph0 = draw_model(rng, kind, nv, nh, na, scales=SCALES_SMALL)
    st = make_state(kind, am0, ph0, unitary_dict=unitary_dict)
    warm(st)
    how = IDIOMS[int(rng.integers(0, len(IDIOMS)))]
    if rng.random() < 0.4:
        # the public reset first (a model that was reinitialised before it got its present parameters: nothing about the
        # network - its registered parameter order included - may differ from a freshly built one)
        st.reinitialize_parameters()
        how = "reinitialize+" + how
    set_params_idiom(st.rbm_am, am, how.split("+")[-1])
    if ph is not None:
        set_params_idiom(st.rbm_ph, ph, IDIOMS[int(rng.integers(0, len(IDIOMS)))])
    return st, how


def saturating_units(P, n):
    """number of hidden/auxiliary units whose pre-activation exceeds softplus' switch-over (20) for some basis state:
    only those carry the library's legitimate approximation error (<= 2.1e-9 each)."""
    if P is None:
        return 0
    V = R.space(n)
    k = int(np.sum(np.max(V @ P["W"].T + P["c"][None, :], axis=0) > 19.0))
    if "U" in P:
        k += int(np.sum(np.max(V @ P["U"].T + P["d"][None, :], axis=0) > 19.0))
    return k


def tau_sp(n, *nets):
    """softplus budget for quantities derived from the effective energies of the given networks"""
    return 3e-9 * sum(saturating_units(P, n) for P in nets)


def all_nonzero(*dicts):
    for P in dicts:
        if P is None:
            continue
        for k, v in P.items():
            if not np.all(v != 0):
                return False
    return True


def model_digest(kind, am, ph, extra=None):
    from .monitors import digest

    return digest([kind, am, ph if ph is not None else {}, extra])


def small_params(P):
    """compact literal form for evidence samples"""
    return {k: np.round(np.asarray(v), 4).tolist() for k, v in P.items()} if P else None


def flat(Pgrad, order):
    return np.concatenate([np.asarray(Pgrad[k]).reshape(-1) for k in order])


def dec(t):
    """decode the library's real-pair encoding (own trivial decoder)."""
    a = t.detach().cpu().numpy() if isinstance(t, torch.Tensor) else np.asarray(t)
    return a[0].astype(np.float64) + 1j * a[1].astype(np.float64)


def enc(z):
    z = np.asarray(z)
    return torch.tensor(np.stack([z.real, z.imag]), dtype=torch.double)


def haar_2x2(rng):
    z = rng.normal(size=(2, 2)) + 1j * rng.normal(size=(2, 2))
    q, r = np.linalg.qr(z)
    d = np.diag(r)
    return q * (d / np.abs(d))


def random_bases(rng, N, n, alphabet="XYZ", p_z=0.4):
    rows = []
    for _ in range(N):
        if rng.random() < p_z:
            rows.append(["Z"] * n)
        else:
            rows.append(list(rng.choice(list(alphabet), size=n)))
    return np.array(rows, dtype=str).reshape(N, n)


MEMORY_FORMS = ["contiguous", "strided", "column-major", "offset-slice", "expanded"]


def memory_form(t, rng, form=None):
    """The same values as the 2-D (or 1-D) tensor `t` held in another legal memory form (what a user gets from slicing,
    transposing or expanding): returns (tensor, form name).  'expanded' (stride 0) is only possible when all rows are
    equal and otherwise falls back to 'strided'."""
    form = form or MEMORY_FORMS[int(rng.integers(0, len(MEMORY_FORMS)))]
    if t.dim() == 1:
        if form in ("strided", "column-major", "expanded"):
            big = torch.zeros(t.shape[0] * 2, dtype=t.dtype)
            big[::2] = t
            return big[::2], "strided"
        if form == "offset-slice":
            big = torch.full((t.shape[0] + 3,), 7.0, dtype=t.dtype)
            big[2:-1] = t
            return big[2:-1], form
        return t.clone(), "contiguous"
    if form == "expanded":
        if t.shape[0] > 1 and bool((t == t[0:1]).all()):
            return t[0:1].clone().expand(t.shape[0], -1), form
        form = "strided"
    if form == "strided":
        big = torch.full((t.shape[0] * 2, t.shape[1] * 2), 7.0, dtype=t.dtype)
        big[::2, ::2] = t
        return big[::2, ::2], form
    if form == "column-major":
        return t.t().contiguous().t(), form
    if form == "offset-slice":
        big = torch.full((t.shape[0] + 2, t.shape[1] + 3), 7.0, dtype=t.dtype)
        big[1:-1, 2:-1] = t
        return big[1:-1, 2:-1], form
    return t.clone(), "contiguous"


def memory_form_nd(t, rng, form=None):
    """Same as memory_form for tensors of any rank (used for real-pair complex operands)."""
    forms = ["contiguous", "strided", "reversed-layout", "offset-slice"]
    form = form or forms[int(rng.integers(0, len(forms)))]
    if t.dim() == 0 or form == "contiguous":
        return t.clone(), "contiguous"
    if form == "strided":
        big = torch.full(tuple(2 * s for s in t.shape), 7.0, dtype=t.dtype)
        sl = tuple(slice(None, None, 2) for _ in t.shape)
        big[sl] = t
        return big[sl], form
    if form == "reversed-layout":
        perm = tuple(reversed(range(t.dim())))
        return t.permute(perm).contiguous().permute(perm), form
    big = torch.full(tuple(s + 2 for s in t.shape), 7.0, dtype=t.dtype)
    sl = tuple(slice(1, -1) for _ in t.shape)
    big[sl] = t
    return big[sl], form


UNITARY_CLASSES = ["haar", "hermitian-complex", "pauli-y", "real-symmetric", "real-rotation", "diagonal-phase", "anti-hermitian",
                   "permutation", "symmetric-complex"]


def structured_2x2(rng, cls=None):
    """A 2x2 unitary from a structural class that generic (Haar) matrices never hit: Hermitian with complex entries,
    real symmetric / real non-symmetric, diagonal, anti-Hermitian, permutation, complex symmetric.  returns (U, class)."""
    cls = cls or UNITARY_CLASSES[int(rng.integers(0, len(UNITARY_CLASSES)))]
    sx, sy, sz = np.array([[0, 1], [1, 0]], complex), np.array([[0, -1j], [1j, 0]]), np.array([[1, 0], [0, -1]], complex)
    if cls == "hermitian-complex":  # n.sigma with a y component: Hermitian, unitary, not real
        v = rng.normal(size=3)
        v[1] = np.sign(v[1] or 1.0) * max(abs(v[1]), 0.3)
        v = v / np.linalg.norm(v)
        u = v[0] * sx + v[1] * sy + v[2] * sz
    elif cls == "pauli-y":
        u = sy.copy()
    elif cls == "real-symmetric":
        t = rng.uniform(0.2, 1.3)
        u = np.array([[np.cos(t), np.sin(t)], [np.sin(t), -np.cos(t)]], complex)
    elif cls == "real-rotation":
        t = rng.uniform(0.2, 1.3)
        u = np.array([[np.cos(t), -np.sin(t)], [np.sin(t), np.cos(t)]], complex)
    elif cls == "diagonal-phase":
        u = np.diag(np.exp(1j * rng.uniform(0.3, 2.8, size=2)))
    elif cls == "anti-hermitian":
        v = rng.normal(size=3)
        v = v / np.linalg.norm(v)
        u = 1j * (v[0] * sx + v[1] * sy + v[2] * sz)
    elif cls == "permutation":
        u = sx.copy()
    elif cls == "symmetric-complex":  # U = U^T, complex: V^T V for unitary V
        v = haar_2x2(rng)
        u = v.T @ v
    else:
        u, cls = haar_2x2(rng), "haar"
    assert np.allclose(u @ u.conj().T, np.eye(2), atol=1e-12)
    return u, cls


def scribble_spaces(st, n):
    """What a caller may do with tensors it was handed: re-use them as scratch memory.  Every enumerated space up to n sites is
    requested once more and overwritten; nothing the library computes later (for this or any other model) may depend on it."""
    for k in range(1, n + 1):
        try:
            st.generate_hilbert_space(k).fill_(0.5)
            st.subspace_vector(0, size=k).fill_(0.5)
        except Exception:  # noqa: BLE001  (size limit etc.: not this helper's business)
            pass
