"""Environment bootstrap shared by every check and worker.

* puts the repository under verification (``$QUCUMBER_REPO``, default ``/repo``)
  first on ``sys.path`` so that the *current working tree* is what runs;
* installs the two third-party packages that are only in the offline
  wheelhouse (scipy: needed to import ``qucumber.utils.training_statistics``;
  icontract: runtime contracts) into ``<verif>/.deps`` under a file lock and
  *appends* that directory to ``sys.path``.
"""
import fcntl
import os
import subprocess
import sys

VERIF = os.path.dirname(os.path.dirname(os.path.abspath(__file__)))
REPO = os.path.abspath(os.environ.get("QUCUMBER_REPO", "/repo"))
DEPS = os.path.join(VERIF, ".deps")
WHEELS = "/opt/veriftools/wheels"
PY = "/venv/bin/python"
GUARD = "QUCUMBER_VERIF"


def ensure_deps():
    ok = os.path.join(DEPS, ".ok")
    if os.path.exists(ok):
        return
    os.makedirs(DEPS, exist_ok=True)
    with open(os.path.join(VERIF, ".deps.lock"), "w") as lk:
        fcntl.flock(lk, fcntl.LOCK_EX)
        if os.path.exists(ok):
            return
        cmd = [
            PY, "-m", "pip", "install", "--quiet", "--no-index", "--no-deps",
            "--find-links", WHEELS, "--target", DEPS,
            "scipy", "icontract", "asttokens",
        ]
        env = dict(os.environ, PIP_NO_INDEX="1", PIP_DISABLE_PIP_VERSION_CHECK="1")
        subprocess.run(cmd, check=True, env=env, stdout=subprocess.DEVNULL, stderr=subprocess.DEVNULL)
        with open(ok, "w") as f:
            f.write("ok\n")


def setup_env():
    """Make qucumber (from REPO) and the extra deps importable in this process."""
    os.environ.setdefault("MPLBACKEND", "Agg")
    os.environ[GUARD] = "1"
    ensure_deps()
    if VERIF not in sys.path:
        sys.path.insert(0, VERIF)
    # the repository under test always wins over anything installed
    sys.path[:] = [p for p in sys.path if os.path.abspath(p or ".") != REPO]
    sys.path.insert(0, REPO)
    if DEPS not in sys.path:
        sys.path.append(DEPS)
    import warnings

    warnings.filterwarnings("ignore", category=ResourceWarning)
    import torch

    torch.set_num_threads(1)
    try:
        torch.set_num_interop_threads(1)
    except RuntimeError:
        pass
    import qucumber  # noqa: F401

    got = os.path.abspath(os.path.dirname(os.path.dirname(qucumber.__file__)))
    if got != REPO:
        raise RuntimeError(f"qucumber imported from {got}, expected {REPO}")
    return REPO
