"""Parent-side driver: shards the case list of one property over subprocess
workers, merges what the monitors observed, applies the three-valued verdict
discipline, matches known findings, writes evidence and replay files.

Exit codes: 0 held (possibly with KNOWN-FINDING lines), 1 violated
(VIOLATION lines), 2 inconclusive (INCONCLUSIVE / HARNESS-ERROR lines).
"""
import argparse
import ast
import hashlib
import importlib
import json
import os
import re
import shutil
import subprocess
import sys
import time
from collections import Counter, defaultdict

from . import bootstrap

NPROC = min(16, os.cpu_count() or 1)


# --------------------------------------------------------------------------
# deterministic seeding helpers (never hash())
# --------------------------------------------------------------------------
def sub_seed(*parts):
    h = hashlib.sha256("/".join(str(p) for p in parts).encode()).digest()
    return int.from_bytes(h[:8], "big") >> 1


def np_rng(*parts):
    import numpy as np

    return np.random.Generator(np.random.PCG64(sub_seed(*parts)))


def jdigest(obj):
    return hashlib.sha256(
        json.dumps(obj, sort_keys=True, default=str).encode()
    ).hexdigest()[:20]


# --------------------------------------------------------------------------
# known findings
# --------------------------------------------------------------------------
def load_known(prop_id):
    path = os.path.join(bootstrap.VERIF, "known_findings.json")
    if not os.path.exists(path):
        return []
    with open(path) as f:
        data = json.load(f)
    return [
        e
        for e in data.get("findings", [])
        if e.get("property") == prop_id and e.get("status") == "known"
    ]


def match_known(viol, entries):
    tags = viol.get("tags", {})
    for e in entries:
        m = e.get("matcher", {})
        if m and all(tags.get(k) == v for k, v in m.items()):
            return e
    return None


# --------------------------------------------------------------------------
# reach guard (L4): regex over source lines of the *current* tree
# --------------------------------------------------------------------------
def reach_report(reach, executed):
    """reach: list of (relative file, regex, label). executed: {relfile: set(lines)}
    Returns (rows, missing). A pattern that no longer exists in the source is
    reported as 'absent' and is not demanded (a refactor may have removed it)."""
    rows, missing = [], []
    for rel, pat, label in reach:
        path = os.path.join(bootstrap.REPO, rel)
        try:
            src = open(path).read().splitlines()
        except OSError:
            rows.append({"label": label, "status": "absent-file"})
            continue
        cand = [i + 1 for i, l in enumerate(src) if re.search(pat, l)]
        if not cand:
            rows.append({"label": label, "status": "absent-pattern"})
            continue
        hit = sorted(set(cand) & set(executed.get(rel, ())))
        rows.append(
            {"label": label, "file": rel, "lines": cand[:6], "hit": bool(hit)}
        )
        if not hit:
            missing.append(label)
    return rows, missing


def anchored_line_stats(files, executed):
    """executed vs executable lines (ast statement starts) per anchored file."""
    out = {}
    for rel in files:
        path = os.path.join(bootstrap.REPO, rel)
        try:
            tree = ast.parse(open(path).read())
        except (OSError, SyntaxError):
            continue
        stmts = set()
        for node in ast.walk(tree):
            if isinstance(node, ast.stmt) and not isinstance(
                node, (ast.FunctionDef, ast.ClassDef, ast.Import, ast.ImportFrom)
            ):
                if isinstance(node, ast.Expr) and isinstance(
                    getattr(node, "value", None), ast.Constant
                ):
                    continue  # docstring
                stmts.add(node.lineno)
        ex = set(executed.get(rel, ()))
        out[rel] = {"executed": len(stmts & ex), "statements": len(stmts)}
    return out


# --------------------------------------------------------------------------
def run_check(prop_id, tier, seed, replay=None, workers=None, keep=False):
    t0 = time.time()
    os.environ.setdefault("OMP_NUM_THREADS", "1")
    os.environ.setdefault("MKL_NUM_THREADS", "1")
    bootstrap.setup_env()
    mod = importlib.import_module(f"props.{prop_id}")

    if replay:
        with open(replay) as f:
            rp = json.load(f)
        cases = [rp["case"]]
        tier = rp.get("tier", tier)
    else:
        cases = list(mod.cases(tier, seed))
    if not cases:
        print(f"INCONCLUSIVE property={prop_id} reason=no-cases")
        return 2

    nw = workers or min(NPROC, max(1, len(cases) // getattr(mod, "MIN_PER_WORKER", 1)))
    nw = max(1, min(nw, len(cases)))
    parts = os.path.join(
        os.environ.get("VERIF_EVIDENCE_DIR") or os.path.join(bootstrap.VERIF, "evidence"),
        ".parts", f"{prop_id}-{os.getpid()}"
    )
    os.makedirs(parts, exist_ok=True)
    shards = [[] for _ in range(nw)]
    for i, c in enumerate(cases):
        shards[i % nw].append(c)
    procs = []
    timeout = getattr(mod, "TIMEOUT", {"quick": 600, "thorough": 5400})[tier]
    os.environ.setdefault("OMP_NUM_THREADS", "1")
    os.environ.setdefault("MKL_NUM_THREADS", "1")
    env = dict(os.environ)
    env.setdefault("PYTHONHASHSEED", "0")
    env["MPLBACKEND"] = "Agg"
    env["OMP_NUM_THREADS"] = "1"
    env["MKL_NUM_THREADS"] = "1"
    env[bootstrap.GUARD] = "1"
    use_fork = os.environ.get("VERIF_SPAWN") != "1"
    if use_fork:
        # workers are forked from this process, which has already imported torch
        # and the repository under test (no torch operator has run yet, so no
        # thread pool exists); a child that dies or hangs makes the run
        # inconclusive, it is never waited for beyond the watchdog.
        bootstrap.setup_env()
        from . import worker as _worker
    for w, shard in enumerate(shards):
        pin = os.path.join(parts, f"in{w}.json")
        pout = os.path.join(parts, f"out{w}.json")
        with open(pin, "w") as f:
            json.dump({"prop": prop_id, "tier": tier, "seed": seed, "cases": shard}, f)
        logp = os.path.join(parts, f"log{w}.txt")
        if use_fork:
            sys.stdout.flush()
            sys.stderr.flush()
            pid = os.fork()
            if pid == 0:
                rc = 0
                try:
                    fd = os.open(logp, os.O_WRONLY | os.O_CREAT | os.O_TRUNC)
                    os.dup2(fd, 1)
                    os.dup2(fd, 2)
                    _worker.main(pin, pout)
                    sys.stdout.flush()
                    sys.stderr.flush()
                except BaseException:  # noqa: BLE001
                    import traceback as _tb
                    _tb.print_exc()
                    rc = 3
                finally:
                    os._exit(rc)
            procs.append((pid, pout, logp, w))
        else:
            log = open(logp, "w")
            p = subprocess.Popen(
                [bootstrap.PY, "-m", "vlib.worker", pin, pout],
                cwd=bootstrap.VERIF, env=env, stdout=log, stderr=subprocess.STDOUT,
            )
            log.close()
            procs.append((p, pout, logp, w))

    inconclusive = []
    results = []
    deadline = time.time() + timeout
    for p, pout, logp, w in procs:
        rc = None
        if use_fork:
            while True:
                got, status = os.waitpid(p, os.WNOHANG)
                if got:
                    rc = os.waitstatus_to_exitcode(status)
                    break
                if time.time() > deadline:
                    try:
                        os.kill(p, 9)
                    except ProcessLookupError:
                        pass
                    os.waitpid(p, 0)
                    inconclusive.append(f"worker{w}-timeout")
                    break
                time.sleep(0.02)
        else:
            try:
                p.wait(timeout=max(1, deadline - time.time()))
            except subprocess.TimeoutExpired:
                p.kill()
                p.wait()
                inconclusive.append(f"worker{w}-timeout")
            rc = p.returncode
        if os.path.exists(pout):
            try:
                with open(pout) as f:
                    results.append(json.load(f))
            except ValueError:
                inconclusive.append(f"worker{w}-bad-output")
        else:
            tail = open(logp).read()[-1500:] if os.path.exists(logp) else ""
            inconclusive.append(f"worker{w}-died rc={rc}")
            print(f"HARNESS-ERROR worker {w} produced no result:\n{tail}")

    # ---- merge ----
    counters = Counter()
    sets = defaultdict(set)
    nontrivial = set()
    violations, harness_errors, samples, diags = [], [], [], []
    executed = defaultdict(set)
    done = 0
    for r in results:
        counters.update(r["counters"])
        for k, v in r["sets"].items():
            sets[k].update(v)
        nontrivial.update(r["nontrivial"])
        violations.extend(r["violations"])
        harness_errors.extend(r["harness_errors"])
        samples.extend(r["samples"])
        diags.extend(r.get("diagnostics", []))
        for k, v in r["lines"].items():
            executed[k].update(v)
        done += r["cases_done"]
    if done != len(cases) and not inconclusive:
        inconclusive.append(f"cases-done {done}/{len(cases)}")
    for he in harness_errors[:5]:
        print("HARNESS-ERROR", he["case_digest"], he["error"].strip().splitlines()[-1])
        print(he["error"])
    if harness_errors:
        inconclusive.append(f"harness-errors={len(harness_errors)}")

    # ---- verdict ----
    known = load_known(prop_id)
    matched = defaultdict(list)
    fresh = []
    for v in violations:
        e = match_known(v, known)
        if e is not None:
            matched[e["id"]].append(v)
        else:
            fresh.append(v)

    required = list(getattr(mod, "REQUIRED", []))
    zero = [c for c in required if counters.get(c, 0) == 0]
    if zero and not replay:
        inconclusive.append("monitors-saw-nothing:" + ",".join(zero))
    reach_rows, missing = reach_report(getattr(mod, "REACH", []), executed)
    present = [r for r in reach_rows if "hit" in r]
    # The reach recorder is evidence (which anchored lines ran).  A single unexecuted pattern is NOT a verdict: a refactoring
    # may legitimately stop using a helper and leave it in place; what makes a run conclusive is that the deciding monitors
    # observed events (REQUIRED / CONCLUSIVE).  Only when none of the anchored patterns ran at all is the workload
    # evidently not exercising the code the property is anchored in.
    # (A refactoring may even leave NO anchored pattern executed - the one helper it stopped calling still in place, the other
    # lines rewritten: seen with an independent refactoring of SWAP.apply.  So the files the patterns live in must not
    # have run at all for the workload to count as "not exercising the anchored code".)
    reach_files = {rel for rel, _, _ in getattr(mod, "REACH", [])}
    files_ran = any(executed.get(rel) for rel in reach_files)
    if present and len(missing) == len(present) and not files_ran and not replay:
        inconclusive.append("unreached:" + ",".join(missing))
    if hasattr(mod, "CONCLUSIVE") and not replay:
        inconclusive.extend(mod.CONCLUSIVE(counters))
    if len(nontrivial) < 2 and not replay:
        inconclusive.append("too-few-nontrivial-cases")

    replay_paths = []
    if fresh:
        rdir = os.path.join(os.environ.get("VERIF_REPLAY_DIR") or os.path.join(bootstrap.VERIF, "replays"), prop_id)
        os.makedirs(rdir, exist_ok=True)
        seen_kinds = Counter()
        for v in fresh:
            seen_kinds[v["kind"]] += 1
            if seen_kinds[v["kind"]] > 3:
                continue
            path = os.path.join(rdir, jdigest([v["case"], v["kind"]]) + ".json")
            with open(path, "w") as f:
                json.dump(
                    {"property": prop_id, "tier": tier, "seed": seed, "case": v["case"],
                     "violation": v},
                    f, indent=1, default=str,
                )
            replay_paths.append((v, path))

    wall = time.time() - t0
    if not replay:
        anchors = getattr(mod, "ANCHOR_FILES", [])
        cov = {
            "evaluations": int(counters.get(getattr(mod, "EVAL_COUNTER", ""), 0) or done),
            "distinct_nontrivial": int(len(nontrivial)),
            "rule": getattr(mod, "RULE", ""),
            "samples": samples[:6] if samples else [cases[0]],
            "exhaustive": bool(getattr(mod, "EXHAUSTIVE", {}).get(tier, False)),
            "monitor_counters": dict(sorted(counters.items())),
            "distinct_seen": {k: len(v) for k, v in sorted(sets.items())},
            "distinct_values_small_sets": {k: sorted(v) for k, v in sorted(sets.items()) if len(v) <= 12},
            "reach_guard": reach_rows,
            "reach_unhit": missing,
            "anchored_lines": anchored_line_stats(anchors, executed),
            "workers": nw,
            "known_findings_matched": {k: len(v) for k, v in matched.items()},
            "inconclusive_reasons": inconclusive,
            "diagnostics": diags[:10],
            "violation_kinds": dict(Counter(v["kind"] for v in fresh)),
        }
        if getattr(mod, "EXHAUSTIVE_NOTE", None):
            cov["exhaustive_subspaces"] = mod.EXHAUSTIVE_NOTE
        ev = {
            "property_id": prop_id,
            "tier": tier,
            "seed": int(seed),
            "level": "exploration",
            "coverage": cov,
            "assumptions": list(getattr(mod, "ASSUMPTIONS", [])),
            "wall_s": round(wall, 2),
            "violations": len(fresh),
        }
        evdir = os.environ.get("VERIF_EVIDENCE_DIR") or os.path.join(bootstrap.VERIF, "evidence")
        os.makedirs(evdir, exist_ok=True)
        with open(os.path.join(evdir, f"{prop_id}.json"), "w") as f:
            json.dump(ev, f, indent=1, default=str)
            f.write("\n")

    if not keep:
        shutil.rmtree(parts, ignore_errors=True)

    # ---- report ----
    print(
        f"[{prop_id}] tier={tier} seed={seed} cases={done}/{len(cases)} "
        f"nontrivial={len(nontrivial)} workers={nw} wall={wall:.1f}s"
    )
    keys = sorted(counters)
    print("[%s] observed: %s" % (prop_id, ", ".join(f"{k}={counters[k]}" for k in keys)))
    for e in known:
        if matched.get(e["id"]):
            print(
                f"KNOWN-FINDING: property={prop_id} {e['id']} {e['what']} "
                f"(matched {len(matched[e['id']])} observations)"
            )
    if fresh:
        kinds = Counter(v["kind"] for v in fresh)
        print(f"[{prop_id}] {len(fresh)} violation observations: {dict(kinds)}")
        shown = set()
        for v, path in replay_paths:
            if v["kind"] in shown:
                continue
            shown.add(v["kind"])
            print(f"  {v['kind']}: {v['msg'][:400]}")
            print(f"VIOLATION property={prop_id} replay={path}")
        return 1
    if inconclusive:
        print(f"INCONCLUSIVE property={prop_id} reason={';'.join(inconclusive)}")
        return 2
    print(f"[{prop_id}] HELD on everything explored")
    return 0


def main(argv=None):
    ap = argparse.ArgumentParser()
    ap.add_argument("prop")
    ap.add_argument("--tier", default=os.environ.get("VERIF_TIER", "quick"),
                    choices=["quick", "thorough"])
    ap.add_argument("--seed", type=int, default=int(os.environ.get("VERIF_SEED", "0")))
    ap.add_argument("--replay")
    ap.add_argument("--workers", type=int)
    ap.add_argument("--keep", action="store_true")
    a = ap.parse_args(argv)
    return run_check(a.prop, a.tier, a.seed, a.replay, a.workers, a.keep)


if __name__ == "__main__":
    sys.exit(main())
