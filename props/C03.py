"""C03 - training gradients are the exact NLL gradients.

Events: return values of gradient / positive_phase_gradients /
compute_exact_gradients / PositiveWaveFunction.compute_exact_grads (batched and
1-D forms).  Oracle: torch autograd through the reference objective
  sum_i -log p~(sigma_i | b_i)   (+ N log Z)
written from the Born rule with dense Kronecker unitaries, differentiated with
respect to *named* parameter tensors and laid out in the library's own
named_parameters() order.  Metamorphic monitors: batch permutation, splitting,
1-D vs batched, entry-point agreement.
"""
import itertools

import numpy as np
import torch

from vlib import gen, refmodel as R
from vlib.runner import np_rng

ID = "C03"
RULE = ("one case = (state type, architecture nv<=4, parameters with all biases non-zero, dataset of 1..12 rows with "
        "duplicates, basis assignment). All 3^n basis strings for n<=4 are enumerated as single-basis batches for "
        "complex and mixed states; plus mixed batches (all-Z rows with rotated rows, repeated bases, every row its own "
        "basis) and positive states. Non-trivial: all biases/weights non-zero, phase network non-zero, and (for "
        "complex/mixed) at least one rotated row; distinct by sha256(parameters, data, bases). Cases whose reference "
        "condition number kappa > 1e5 are executed and logged but not verdict-bearing.")
REQUIRED = ["states_used_before_with_other_parameters", "gradient_vectors_compared", "exact_gradient_vectors_compared", "oned_forms_compared",
            "metamorphic_checks", "cases_with_Y"]
ANCHOR_FILES = ["qucumber/nn_states/neural_state.py", "qucumber/nn_states/complex_wavefunction.py",
                "qucumber/nn_states/density_matrix.py", "qucumber/nn_states/positive_wavefunction.py"]
REACH = [
    ("qucumber/nn_states/neural_state.py", r"sample_grad = self\.rotated_gradient\(basis", "gradient rotated branch"),
    ("qucumber/nn_states/neural_state.py", r"self\.rbm_am\.effective_energy_gradient\(samples\[indices == i", "gradient all-Z branch"),
    ("qucumber/nn_states/neural_state.py", r"bases = np\.array\(list\(bases\)\)\.reshape\(1, -1\)", "gradient 1-D branch"),
    ("qucumber/nn_states/neural_state.py", r"grad\[0\] -= torch\.mv\(", "compute_exact_gradients negative phase"),
    ("qucumber/nn_states/complex_wavefunction.py", r"inv_Upsi = cplx\.inverse\(Upsi\)", "ComplexWaveFunction.rotated_gradient"),
    ("qucumber/nn_states/density_matrix.py", r"inv_UrhoU = 1 / \(UrhoU \+ 1e-8\)", "DensityMatrix.rotated_gradient"),
    ("qucumber/nn_states/density_matrix.py", r"sig = cplx\.scalar_mult\(sig, cplx\.I\)", "pi_grad(phase=True)"),
    ("qucumber/nn_states/density_matrix.py", r"ab_grad_real = cplx\.real\(sig\)", "pi_grad(phase=False)"),
    ("qucumber/nn_states/positive_wavefunction.py", r"def compute_exact_grads", "PositiveWaveFunction.compute_exact_grads defined"),
]
EXHAUSTIVE_NOTE = ("all 3^n basis strings (n=1..4) as single-basis batches for ComplexWaveFunction and DensityMatrix "
                   "are enumerated in both tiers")
ASSUMPTIONS = ["torch autograd of complex128 expressions is correct",
               "mixed states: the library value may match the gradient of -log p~, of -log(p~+1e-8) on rotated rows only, or on all rows",
               "softplus threshold approximation budgeted (3e-9 per unit)"]
MIN_PER_WORKER = 3
TAU = 3e-9
SC = [0.1, 0.5, 1.0, 2.0, 3.0]


def cases(tier, seed):
    out = []
    reps = 1 if tier == "quick" else 80
    for rep in range(reps):
        for n in range(1, 5):
            for b in itertools.product("XYZ", repeat=n):
                for kind in ("complex", "mixed"):
                    out.append({"t": "single", "kind": kind, "n": n, "basis": "".join(b), "rep": rep, "seed": seed})
    nm = 40 if tier == "quick" else 10000
    for i in range(nm):
        out.append({"t": "mixedbatch", "kind": ["complex", "mixed"][i % 2], "n": 1 + i % 4, "rep": i, "seed": seed})
    npos = 24 if tier == "quick" else 4000
    for i in range(npos):
        out.append({"t": "positive", "kind": "positive", "n": 1 + i % 4, "rep": i, "seed": seed})
    return out


def lib_order(rbm):
    names = [n for n, _ in rbm.named_parameters()]
    inv = {v: k for k, v in (gen.PUR_NAMES if hasattr(rbm, "weights_U") else gen.BIN_NAMES).items()}
    return [inv[n] for n in names]


def as_flat(ctx, what, g, size):
    if not isinstance(g, torch.Tensor) or g.numel() != size:
        ctx.violation("shape", f"{what}: expected a tensor with {size} entries, got {type(g).__name__} "
                      f"{tuple(getattr(g, 'shape', ()))}", tags={"call": what})
        return None
    return g.detach().numpy().astype(float).reshape(-1)


def run_case(case, ctx):
    kind, n = case["kind"], case["n"]
    rng = np_rng(ID, case["seed"], case["t"], kind, n, case.get("basis"), case["rep"])
    nh = int(rng.integers(1, 4))
    na = int(rng.integers(1, 4))
    u_ = rng.random()
    scales = SC if u_ < 0.75 else ([1.0, 3.0, 10.0] if u_ < 0.9 else gen.SCALES_FULL)  # last class: up to 30, tiny unnormalised weights
    ctx.seen("scale_classes", 0 if u_ < 0.75 else (1 if u_ < 0.9 else 2))
    am, ph = gen.draw_model(rng, kind, n, nh, na, scales=scales, phase_aux_bias=(case["rep"] % 4 == 1))
    if case["rep"] % 2 == 0 and case["t"] != "single" or (case["t"] == "single" and len(case["basis"]) % 2 == 0):
        def warm(s_):
            sp_ = s_.generate_hilbert_space()
            if kind == "positive":
                s_.gradient(sp_), s_.compute_exact_gradients(sp_, sp_)
            else:
                b_ = np.array([list("XYZ"[: n] + "Z" * max(0, n - 3))] * len(sp_), dtype=str).reshape(len(sp_), n)
                s_.gradient(sp_, b_), s_.compute_exact_gradients(sp_, sp_, b_)
        st, how = gen.make_state_used(rng, kind, am, ph, warm)
        ctx.count("states_used_before_with_other_parameters")
        ctx.seen("parameter_change_idioms", how)
    else:
        st = gen.make_state(kind, am, ph)
    N = int(rng.integers(1, 13))
    V = R.space(n)
    rows = V[rng.integers(0, len(V), size=N)]
    if N > 2 and rng.random() < 0.5:
        rows[1] = rows[0]  # duplicates
    if case["t"] == "single":
        bases = np.array([list(case["basis"])] * N, dtype=str).reshape(N, n)
    elif case["t"] == "mixedbatch":
        style = case["rep"] % 3
        if style == 0:
            bases = gen.random_bases(rng, N, n, p_z=0.4)
        elif style == 1:  # few distinct bases, repeated and interleaved
            pool = gen.random_bases(rng, 2, n, p_z=0.3)
            bases = pool[rng.integers(0, 2, size=N)]
        else:  # every row its own basis where possible
            allb = ["".join(b) for b in itertools.product("XYZ", repeat=n)]
            pick = rng.permutation(len(allb))[:N]
            bases = np.array([list(allb[pick[i % len(pick)]]) for i in range(N)], dtype=str).reshape(N, n)
    else:
        bases = None
    samples = torch.tensor(rows, dtype=torch.double)
    if samples.dim() == 2 and case.get("rep", 0) % 2 == 1:
        # the data as a column block / every other row of a larger table, or column-major (what slicing a loaded file gives)
        samples, mform = gen.memory_form(samples, rng)
        ctx.count("non_contiguous_sample_batches")
        ctx.seen("sample_memory_forms", mform)
    skeep = samples.clone()
    bkeep = None if bases is None else bases.copy()

    # ---- reference ----
    tam = R.t_params(am)
    tph = R.t_params(ph) if ph is not None else None
    bl = [["Z"] * n] * N if bases is None else bases
    units = gen.saturating_units(am, n) + gen.saturating_units(ph, n)
    orders = {"am": lib_order(st.rbm_am)}
    if kind != "positive":
        orders["ph"] = lib_order(st.rbm_ph)
    nets = ["am"] + (["ph"] if kind != "positive" else [])

    def ref_flat(reg, rot_only=False):
        tot = R.t_sum_neg_log_p(kind, tam, tph, n, rows, bl, reg=reg, reg_rotated_only=rot_only)
        g = R.grads_of(tot, tam, tph)
        return [gen.flat(g[net], orders[net]) for net in nets]

    refs = [ref_flat(0.0)]
    if kind == "mixed":
        # admissible readings of "up to the library's 1e-8 regularisation of rotated probabilities":
        # none, on rotated rows only (what the code does), on every row
        refs.append(ref_flat(1e-8, rot_only=True))
        refs.append(ref_flat(1e-8))
    glz = R.grads_of(R.t_log_Z(kind, tam, tph, n), tam, tph)
    glz = gen.flat(glz["am"], orders["am"])
    # conditioning
    kd, obj = R.state_dense(kind, am, ph, n)
    kappa = 1.0
    for s, b in zip(rows, bl):
        p, sc = R.born(kd, obj, "".join(b))
        i = R.index_of(s)
        k = np.sqrt(sc[i] / max(p[i], 1e-300)) if kd == "pure" else sc[i] / max(p[i], 1e-300)
        kappa = max(kappa, float(k))
    verdict = kappa <= 1e5
    if not verdict:
        ctx.count("ill_conditioned_not_verdict_bearing")
    wit = {"am": gen.small_params(am), "ph": gen.small_params(ph), "rows": rows.astype(int).tolist(),
           "bases": None if bases is None else ["".join(b) for b in bases], "kappa": kappa}
    tags = {"state": kind}

    def compare(what, got_list, scale_div, add_logZ=False):
        """got_list: library list of flat tensors; compares with any admissible reference."""
        sizes = [len(refs[0][i]) for i in range(len(nets))]
        if not isinstance(got_list, (list, tuple)) or len(got_list) != len(nets):
            ctx.violation("shape", f"{what}: expected a list of {len(nets)} gradient vectors, got {type(got_list).__name__} "
                          f"of length {len(got_list) if hasattr(got_list, '__len__') else '?'}", tags=dict(tags, call=what))
            return None
        got = [as_flat(ctx, what, g, sz) for g, sz in zip(got_list, sizes)]
        if any(g is None for g in got):
            return None
        ok_any = False
        worst = None
        for ref in refs:
            ok = True
            for i, net in enumerate(nets):
                want = ref[i] / scale_div
                if add_logZ and net == "am":
                    want = want + glz
                tol = (1e-10 + TAU * units) * kappa * (1 + np.abs(want).max())
                d = np.abs(got[i] - want)
                if np.any(d > tol):
                    ok = False
                    j = int(np.argmax(d))
                    if worst is None or d[j] < worst[0]:
                        worst = (d[j], net, j, got[i][j], want[j], tol)
            ok_any = ok_any or ok
        if not ok_any and verdict:
            d, net, j, g, w, tol = worst
            pname, off = locate(orders[net], st.rbm_am if net == "am" else st.rbm_ph, j)
            ctx.violation("gradient-vs-autograd",
                          f"{what} [{net} network, flat index {j} = {pname}{off}]: library {g!r}, autograd of the "
                          f"NLL {w!r} (|diff|={d:.3e}, tol={tol:.1e}, kappa={kappa:.1e})",
                          tags=dict(tags, call=what, net=net), witness=wit)
        return got

    if kind == "positive":
        g = ctx.lib("gradient", st.gradient, samples)
        G = compare("gradient", g, 1.0)
        ctx.count("gradient_vectors_compared")
        pp = ctx.lib("positive_phase_gradients", st.positive_phase_gradients, samples)
        compare("positive_phase_gradients", pp, float(N))
        sp = st.generate_hilbert_space()
        ex = ctx.lib("compute_exact_gradients", st.compute_exact_gradients, samples, sp)
        EX = compare("compute_exact_gradients", ex, float(N), add_logZ=True)
        ctx.count("exact_gradient_vectors_compared")
        try:
            ex2 = ctx.lib("compute_exact_grads", st.compute_exact_grads, samples, sp, tags=tags)
            EX2 = compare("compute_exact_grads", ex2, float(N), add_logZ=True)
            ctx.count("exact_gradient_vectors_compared")
            if EX is not None and EX2 is not None and not np.allclose(EX[0], EX2[0], rtol=1e-12, atol=1e-14):
                ctx.violation("entry-points-disagree", "compute_exact_grads != compute_exact_gradients", tags=tags)
        except Exception as e:  # LibraryError: recorded; carry on with the rest of the case
            if type(e).__name__ != "LibraryError":
                raise
        # 1-D form
        g1 = ctx.lib("gradient(1d)", st.gradient, samples[0].clone())
        r1 = R.grads_of(R.t_sum_neg_log_p(kind, tam, None, n, rows[:1], [["Z"] * n]), tam, None)
        f1 = as_flat(ctx, "gradient(1d)", g1[0], len(refs[0][0]))
        want = gen.flat(r1["am"], orders["am"])
        ctx.count("oned_forms_compared")
        if f1 is not None and np.any(np.abs(f1 - want) > (1e-10 + TAU * units) * (1 + np.abs(want).max())):
            ctx.violation("oned-gradient", "1-D gradient form disagrees with autograd", tags=tags, witness=wit)
    else:
        g = ctx.lib("gradient", st.gradient, samples, bases)
        G = compare("gradient", g, 1.0)
        ctx.count("gradient_vectors_compared", 2)
        pp = ctx.lib("positive_phase_gradients", st.positive_phase_gradients, samples, bases)
        compare("positive_phase_gradients", pp, float(N))
        sp = st.generate_hilbert_space()
        ex = ctx.lib("compute_exact_gradients", st.compute_exact_gradients, samples, sp, bases)
        compare("compute_exact_gradients", ex, float(N), add_logZ=True)
        ctx.count("exact_gradient_vectors_compared", 2)
        # 1-D forms: bases as str, list, array
        i0 = int(rng.integers(0, N))
        forms = ["".join(bases[i0]), list(bases[i0]), np.array(bases[i0])]
        r1s = []
        for reg in ([0.0, 1e-8] if kind == "mixed" else [0.0]):
            r1 = R.grads_of(R.t_sum_neg_log_p(kind, tam, tph, n, rows[i0:i0 + 1], [bases[i0]], reg=reg), tam, tph)
            r1s.append([gen.flat(r1[net], orders[net]) for net in nets])
        p1, sc1 = R.born(kd, obj, "".join(bases[i0]))
        ix = R.index_of(rows[i0])
        k1 = max(1.0, float(np.sqrt(sc1[ix] / max(p1[ix], 1e-300)) if kd == "pure" else sc1[ix] / max(p1[ix], 1e-300)))
        for fm in forms:
            g1 = ctx.lib("gradient(1d)", st.gradient, samples[i0].clone(), fm)
            ctx.count("oned_forms_compared")
            if not isinstance(g1, (list, tuple)) or len(g1) != 2:
                ctx.violation("shape", "gradient(1d) did not return two vectors", tags=tags)
                break
            okany = False
            for r1 in r1s:
                ok = True
                for i, net in enumerate(nets):
                    gi = g1[i]
                    gi = gi.detach().numpy().reshape(-1) if isinstance(gi, torch.Tensor) else np.full(len(r1[i]), float(gi))
                    if gi.shape != r1[i].shape or np.any(np.abs(gi - r1[i]) > (1e-10 + TAU * units) * k1 * (1 + np.abs(r1[i]).max())):
                        ok = False
                okany = okany or ok
            if not okany and k1 <= 1e5:
                ctx.violation("oned-gradient", f"1-D gradient (bases as {type(fm).__name__}) disagrees with autograd of the "
                              f"single-sample NLL (row {rows[i0].astype(int).tolist()}, basis {''.join(bases[i0])})",
                              tags=tags, witness=wit)
                break
        # metamorphic: permutation and split
        if N >= 2 and G is not None:
            perm = rng.permutation(N)
            gp = ctx.lib("gradient(permuted)", st.gradient, samples[perm], bases[perm])
            cut = int(rng.integers(1, N))
            ga = ctx.lib("gradient(part A)", st.gradient, samples[:cut], bases[:cut])
            gb = ctx.lib("gradient(part B)", st.gradient, samples[cut:], bases[cut:])
            ctx.count("metamorphic_checks", 2)
            for i, net in enumerate(nets):
                tol = (1e-10 + TAU * units) * kappa * (1 + np.abs(G[i]).max())
                gpi = gp[i].detach().numpy().reshape(-1)
                if np.any(np.abs(gpi - G[i]) > tol) and verdict:
                    ctx.violation("permutation-changes-gradient", f"{net}: gradient depends on the row order", tags=tags, witness=wit)
                fa = ga[i].detach().numpy().reshape(-1) if isinstance(ga[i], torch.Tensor) else 0.0
                fb = gb[i].detach().numpy().reshape(-1) if isinstance(gb[i], torch.Tensor) else 0.0
                if np.any(np.abs(fa + fb - G[i]) > 2 * tol) and verdict:
                    ctx.violation("split-changes-gradient", f"{net}: gradient(A)+gradient(B) != gradient(A u B)", tags=tags, witness=wit)
        else:
            ctx.count("metamorphic_checks", 0)
    if not torch.equal(samples, skeep) or (bases is not None and not np.array_equal(bases, bkeep)):
        ctx.violation("input-mutated", "gradient computation modified samples or bases", tags=tags)

    rotated = bases is not None and bool(np.any(bases != "Z"))
    hasY = bases is not None and bool(np.any(bases == "Y"))
    if hasY:
        ctx.count("cases_with_Y")
    if verdict and gen.all_nonzero(am, None if ph is None else {k: v for k, v in ph.items() if k != "d"}) \
            and (kind == "positive" or rotated):
        ctx.mark_nontrivial(gen.model_digest(kind, am, ph, extra=[rows, None if bases is None else bases.tolist()]))
    ctx.seen("kinds", kind)
    ctx.seen("case_types", case["t"])
    if bases is not None:
        ctx.seen("distinct_bases_in_batch", len({"".join(b) for b in bases}))
        if case["t"] == "single":
            ctx.seen("single_basis_strings", (kind, case["basis"]))
    ctx.seen("kappa_decade", int(np.log10(kappa)))
    gen.scribble_spaces(st, n)  # tensors handed out are the caller's: nothing later may depend on them
    ctx.sample({"case": case, **{k: wit[k] for k in ("rows", "bases", "kappa")}, "am": wit["am"]})


def locate(order, rbm, j):
    names = gen.PUR_NAMES if hasattr(rbm, "weights_U") else gen.BIN_NAMES
    off = 0
    for k in order:
        sz = getattr(rbm, names[k]).numel()
        if j < off + sz:
            return names[k], f"[{j - off}]"
        off += sz
    return "?", ""
