"""C06 - each training step applies exactly the contrastive-divergence update.

Events (L1): per batch - arguments/result of compute_batch_gradients, arguments/
result of rbm_am.gibbs_steps inside it, then at RecordingSGD.step(): every named
parameter's .grad, value before and after, lr in force; every scheduler step.
Oracle: autograd of the reference objective with the parameters as they were AT
THAT STEP (snapshot by the recorder), compared per named parameter.
"""
import numpy as np
import torch

from vlib import gen, refmodel as R, trainrec
from vlib.runner import np_rng

ID = "C06"
RULE = ("one case = one fit() run (state type, N rows, pos/neg batch sizes equal / different / dividing N or not / > N, "
        "k in 0..3, lr in {1e-3,0.1,1,7.5}, 1..4 epochs, with/without StepLR). Every optimizer step of the run is "
        "monitored. Non-trivial: >= 2 batches per epoch and >= 2 epochs; distinct by sha256(config, initial "
        "parameters, data).")
REQUIRED = ["second_runs_reusing_argument_dicts", "optimizer_steps_monitored", "named_gradients_compared", "updates_checked", "scheduler_steps_seen",
            "runs_neg_ne_pos", "runs_with_bases", "runs_N_not_multiple"]
ANCHOR_FILES = ["qucumber/nn_states/neural_state.py", "qucumber/utils/gradients_utils.py"]
REACH = [
    ("qucumber/nn_states/neural_state.py", r"grad\[0\] -= grad_model / float\(neg_batch\.shape\[0\]\)", "compute_batch_gradients"),
    ("qucumber/utils/gradients_utils.py", r"param\.grad = vec\[pointer", "vector_to_grads"),
    ("qucumber/nn_states/neural_state.py", r"scheduler\.step\(\)", "scheduler branch"),
    ("qucumber/nn_states/neural_state.py", r"optimizer\.step\(\)", "optimizer.step"),
]
ASSUMPTIONS = ["torch autograd (reference gradient) and torch.optim.SGD arithmetic",
               "mixed states: -log(p~+1e-8) or -log p~ accepted for the positive phase"]


def CONCLUSIVE(counters):
    if counters.get("named_gradients_compared", 0) == 0:
        return ["no optimizer step could be reconstructed at the public boundaries"]
    return []


MIN_PER_WORKER = 1
TAU = 3e-9


def cases(tier, seed):
    n = 48 if tier == "quick" else 16000
    return [{"rep": i, "kind": gen.KINDS[i % 3], "seed": seed} for i in range(n)]


def config(case):
    rng = np_rng(ID, case["seed"], case["rep"])
    kind = case["kind"]
    nv = int(rng.integers(1, 4))
    N = int(rng.integers(1, 25 if kind == "positive" else 13))
    style = case["rep"] // 3 % 6
    if style == 0:
        pos = max(1, N // int(rng.integers(1, 4)))
        neg = None
    elif style == 1:
        pos = int(rng.integers(1, max(2, N)))
        neg = int(rng.integers(1, N + 3))
    elif style == 2:
        pos = N + int(rng.integers(1, 4))
        neg = int(rng.integers(1, 4))
    elif style == 3:
        pos = int(rng.integers(1, max(2, N // 2 + 1)))
        neg = pos
    elif style == 5:
        # full-batch training over several epochs (the whole data set is one batch, every epoch)
        pos = N + int(rng.choice([0, 0, 1, 3]))
        neg = [None, pos][int(rng.integers(0, 2))]
    else:
        pos = int(rng.integers(2, 6))
        neg = int(rng.integers(1, 8))
    cfg = {"kind": kind, "nv": nv, "nh": int(rng.integers(1, 4)), "na": int(rng.integers(1, 3)), "N": N, "pos": pos,
           "neg": neg, "k": int(rng.integers(0, 4)), "lr": float(rng.choice([1e-3, 0.1, 1.0, 7.5])),
           "epochs": int(rng.integers(1, 5)), "start": int(rng.choice([1, 1, 2, 4])), "sched": bool(rng.random() < 0.5), "step_size": int(rng.integers(1, 3)),
           "gamma": float(rng.choice([0.5, 0.1])), "momentum0": bool(rng.random() < 0.5)}
    if style == 5:
        cfg["start"], cfg["epochs"] = 1, int(rng.integers(2, 5))
    if kind != "positive" and cfg["lr"] > 1:
        # large steps make training with rotated bases diverge (gradients contain 1/amplitude): parameters become NaN and the
        # sampler rightly refuses NaN probabilities - a diverged run is not a statement about the update rule
        cfg["lr"] = 1.0
    return rng, cfg


def key_of(pname):
    net, attr = pname.split(".")
    inv = {v: k for k, v in gen.PUR_NAMES.items()}
    inv.update({v: k for k, v in gen.BIN_NAMES.items()})
    return ("am" if net == "rbm_am" else "ph"), inv[attr]


def run_case(case, ctx):
    rng, cfg = config(case)
    kind, nv = cfg["kind"], cfg["nv"]
    am, ph = gen.draw_model(rng, kind, nv, cfg["nh"], cfg["na"], scales=[0.1, 0.5, 1.0])
    st = gen.make_state(kind, am, ph)
    if case["rep"] % 2 == 1:
        # a model that went through the public reset before it got these parameters trains exactly like a fresh one
        st.reinitialize_parameters()
        gen.set_params(st.rbm_am, am)
        if ph is not None:
            gen.set_params(st.rbm_ph, ph)
        ctx.count("models_reinitialised_before_training")
    V = R.space(nv)
    rows = V[rng.integers(0, len(V), size=cfg["N"])]
    bases = None
    if kind != "positive":
        bases = gen.random_bases(rng, cfg["N"], nv, p_z=0.4)
        bases[int(rng.integers(0, cfg["N"]))] = "Z"  # at least one reference-basis row
    data = torch.tensor(rows, dtype=torch.double)
    shared = {}
    if cfg["sched"]:
        shared["scheduler_args"] = {"step_size": cfg["step_size"], "gamma": cfg["gamma"]}
    if cfg["momentum0"]:
        shared["optimizer_args"] = {"momentum": 0}
    keep_args = {k: dict(v) for k, v in shared.items()}
    one_run(case, ctx, cfg, st, kind, nv, rows, bases, data, shared, am, ph, "first")
    if case["rep"] % 2 == 0:
        # history: a second fit on the same state re-using the caller's optimizer_args / scheduler_args objects
        cfg2 = dict(cfg, lr=cfg["lr"] * 0.25 if cfg["lr"] > 1e-3 else 0.5, epochs=int(1 + case["rep"] % 3))
        one_run(case, ctx, cfg2, st, kind, nv, rows, bases, data, shared, None, None, "second")
        ctx.count("second_runs_reusing_argument_dicts")
        if {k: dict(v) for k, v in shared.items()} != keep_args:
            ctx.count("caller_argument_dicts_modified")


def one_run(case, ctx, cfg, st, kind, nv, rows, bases, data, shared, am, ph, label):
    log = trainrec.Log()
    undo = trainrec.instrument_state(st, log)
    rec = trainrec.recorder_callback(log, digest_params=False)
    kw = {}
    if bases is not None:
        kw["input_bases"] = bases
    if cfg["sched"]:
        kw["scheduler"] = trainrec.make_recording_scheduler(log)
        kw["scheduler_args"] = shared["scheduler_args"]
    if cfg["momentum0"]:
        kw["optimizer_args"] = shared["optimizer_args"]
    tags = {"state": kind, "run": label}
    try:
        # cfg["epochs"] is the NUMBER of epochs trained; training may resume at a later epoch index (starting_epoch)
        ctx.lib("fit", st.fit, data, epochs=cfg["start"] + cfg["epochs"] - 1, starting_epoch=cfg["start"], pos_batch_size=cfg["pos"],
                neg_batch_size=cfg["neg"], k=cfg["k"], lr=cfg["lr"], callbacks=[rec], optimizer=trainrec.make_recording_sgd(log, st),
                tags=tags, **kw)
        ctx.seen("starting_epochs", cfg["start"])
    finally:
        undo()
    wit = {"config": cfg}
    units = cfg["nh"] + (cfg["na"] if kind == "mixed" else 0)

    # ---- protocol: per batch exactly one cbg call, one gibbs call inside it, one optimizer step
    i = 0
    evs = list(log)
    nsteps = 0
    epoch_idx = -1
    sched_in_epoch = 0
    steps_in_epoch = 0
    lr_expected = cfg["lr"]
    while i < len(evs):
        e = evs[i]
        if e["type"] == "cb" and e["event"] == "epoch_start":
            epoch_idx += 1
            sched_in_epoch = 0
            steps_in_epoch = 0
            if cfg["sched"]:
                lr_expected = cfg["lr"] * cfg["gamma"] ** (epoch_idx // cfg["step_size"])
        if e["type"] == "sched_step" and not e["ctor"]:
            ctx.count("scheduler_steps_seen")
            sched_in_epoch += 1
            # must come after this epoch's last optimizer step
            later = [x for x in evs[i:] if x["type"] in ("opt_step", "cb")]
            for x in later:
                if x["type"] == "cb" and x["event"] in ("epoch_start", "train_end"):
                    break
                if x["type"] == "opt_step":
                    ctx.violation("scheduler-before-last-batch", "the scheduler was stepped before the epoch's last optimizer step",
                                  tags=tags, witness=wit)
                    break
        if e["type"] == "cb" and e["event"] in ("epoch_end",):
            pass
        if e["type"] == "cb" and e["event"] == "epoch_start" and epoch_idx > 0 or (e["type"] == "cb" and e["event"] == "train_end" and epoch_idx >= 0):
            pass
        if e["type"] == "cb" and e["event"] == "batch_start":
            j = i + 1
            seg = []
            while j < len(evs) and not (evs[j]["type"] == "cb" and evs[j]["event"] == "batch_end"):
                seg.append(evs[j])
                j += 1
            types = [x["type"] for x in seg]
            if types.count("opt_step") != 1:
                ctx.violation("batch-protocol", f"between batch_start and batch_end: {types.count('opt_step')} optimizer steps (the "
                              "parameters must move once per batch)", tags=tags, witness=wit)
            elif types.count("cbg_call") != 1 or types.count("gibbs_call") != 1:
                # the batch and the chain end state are learnt at the public compute_batch_gradients / gibbs_steps
                # boundaries; if training no longer goes through them (exactly once) this step cannot be reconstructed
                ctx.count("batches_not_observable_at_the_public_boundaries")
                nsteps += 1
            else:
                check_step(ctx, cfg, seg, kind, nv, units, lr_expected, tags, wit)
                nsteps += 1
                steps_in_epoch += 1
            i = j
            continue
        i += 1
    # scheduler exactly once per epoch (constructor's own step excluded)
    if cfg["sched"]:
        per_epoch = []
        cur = None
        for e in evs:
            if e["type"] == "cb" and e["event"] == "epoch_start":
                cur = 0
            elif e["type"] == "sched_step" and not e["ctor"] and cur is not None:
                cur += 1
            elif e["type"] == "cb" and e["event"] in ("train_end",) or (e["type"] == "cb" and e["event"] == "epoch_start"):
                pass
            if e["type"] == "cb" and e["event"] == "epoch_end":
                pass
        # count steps between consecutive epoch_start events / train_end
        marks = [x["i"] for x in evs if x["type"] == "cb" and x["event"] == "epoch_start"] + \
                [x["i"] for x in evs if x["type"] == "cb" and x["event"] == "train_end"]
        for a, b in zip(marks[:-1], marks[1:]):
            per_epoch.append(sum(1 for x in evs[a:b] if x["type"] == "sched_step" and not x["ctor"]))
        if any(c != 1 for c in per_epoch):
            ctx.violation("scheduler-steps-per-epoch", f"scheduler steps per epoch: {per_epoch} (expected exactly 1 each)", tags=tags, witness=wit)
    nb = int(np.ceil(cfg["N"] / cfg["pos"]))
    ctx.count("optimizer_steps_monitored", nsteps)
    if nsteps != nb * cfg["epochs"]:
        ctx.violation("step-count", f"{nsteps} optimizer steps for {cfg['epochs']} epochs x {nb} batches", tags=tags, witness=wit)
    if cfg["neg"] not in (None, cfg["pos"]):
        ctx.count("runs_neg_ne_pos")
    if bases is not None:
        ctx.count("runs_with_bases")
    if cfg["N"] % cfg["pos"]:
        ctx.count("runs_N_not_multiple")
    if nb >= 2 and cfg["epochs"] >= 2 and am is not None:
        ctx.mark_nontrivial(gen.model_digest(kind, am, ph, extra=[cfg, rows]))
    ctx.seen("N_pos_neg_k", (cfg["N"], cfg["pos"], cfg["neg"], cfg["k"]))
    ctx.seen("kinds", kind)
    ctx.seen("lr", cfg["lr"])
    ctx.sample({"case": case, "config": cfg, "events": len(evs), "optimizer_steps": nsteps})


def check_step(ctx, cfg, seg, kind, nv, units, lr_expected, tags, wit):
    call = next(x for x in seg if x["type"] == "cbg_call")
    ret = next((x for x in seg if x["type"] == "cbg_ret"), None)
    gcall = next(x for x in seg if x["type"] == "gibbs_call")
    gret = next((x for x in seg if x["type"] == "gibbs_ret"), None)
    step = next(x for x in seg if x["type"] == "opt_step")
    order = [x["type"] for x in seg if x["type"] in ("cbg_call", "gibbs_call", "gibbs_ret", "cbg_ret", "opt_step")]
    if order != ["cbg_call", "gibbs_call", "gibbs_ret", "cbg_ret", "opt_step"]:
        ctx.violation("batch-protocol", f"event order inside a batch: {order}", tags=tags, witness=wit)
        return
    args = call["args"]
    k_arg, pos_b, neg_b = args[0], args[1], args[2]
    bases_b = args[3] if len(args) > 3 else call["kwargs"].get("bases_batch")
    if k_arg != cfg["k"]:
        ctx.violation("wrong-k", f"compute_batch_gradients called with k={k_arg}, fit was given k={cfg['k']}", tags=tags, witness=wit)
    gk = gcall["args"][0] if gcall["args"] else gcall["kwargs"].get("k")
    ginit = gcall["args"][1] if len(gcall["args"]) > 1 else gcall["kwargs"].get("initial_state")
    if gk != cfg["k"] or not torch.equal(ginit, neg_b):
        ctx.violation("negative-chain-start", f"Gibbs chain run with k={gk} from a state that is not the negative batch", tags=tags, witness=wit)
    vk = gret["result"].numpy()
    # parameters at this step
    am = {}
    ph = {}
    for pname, val in step["before"].items():
        net, key = key_of(pname)
        (am if net == "am" else ph)[key] = val.numpy()
    order_am = gen.PUR_ORDER if kind == "mixed" else gen.BIN_ORDER
    am = {k: am[k] for k in order_am}
    ph = {k: ph[k] for k in order_am} if ph else None
    tam = R.t_params(am)
    tph = R.t_params(ph) if ph is not None else None
    rows = pos_b.numpy()
    bl = [["Z"] * nv] * len(rows) if bases_b is None else bases_b
    refs = []
    for reg, rot_only in ([(0.0, False), (1e-8, True), (1e-8, False)] if kind == "mixed" else [(0.0, False)]):
        obj = R.t_sum_neg_log_p(kind, tam, tph, nv, rows, bl, reg=reg, reg_rotated_only=rot_only) / float(len(rows))
        if len(vk):
            # negative phase: minus the mean effective-energy gradient at the chain end states (held fixed)
            negterm = R.t_sum_neg_log_p(kind, tam, tph, nv, vk, [["Z"] * nv] * len(vk), reg=0.0) / float(len(neg_b))
            if kind != "positive":
                # only the amplitude network receives the negative phase: detach the phase parameters' path
                pass
            obj_am = obj - negterm
        else:
            obj_am = obj
        g_am = R.grads_of(obj_am, tam, tph)["am"]
        g_ph = R.grads_of(R.t_sum_neg_log_p(kind, tam, tph, nv, rows, bl, reg=reg, reg_rotated_only=rot_only) / float(len(rows)), tam, tph)["ph"] if tph else {}
        refs.append((g_am, g_ph))
    kd, dense = R.state_dense(kind, am, ph, nv)
    kappa = 1.0
    for s, b in zip(rows, bl):
        p, sc = R.born(kd, dense, "".join(b))
        ix = R.index_of(s)
        kk = np.sqrt(sc[ix] / max(p[ix], 1e-300)) if kd == "pure" else sc[ix] / max(p[ix], 1e-300)
        kappa = max(kappa, float(kk))
    verdict = kappa <= 1e5
    if not verdict:
        ctx.count("ill_conditioned_steps")
    if step["unknown_params"]:
        ctx.violation("foreign-parameter", "the optimizer holds tensors that are not parameters of the state's networks", tags=tags)
    # per named parameter
    best = None
    for g_am, g_ph in refs:
        bad = []
        for pname, g in step["grads"].items():
            net, key = key_of(pname)
            want = (g_am if net == "am" else g_ph)[key]
            if g is None:
                bad.append((pname, "grad is None", 0, 0))
                continue
            gl = g.numpy()
            tol = (1e-10 + gen.tau_sp(nv, am, ph)) * kappa * (1 + np.abs(want).max())
            if gl.shape != want.shape:
                bad.append((pname, f"shape {gl.shape} != {want.shape}", 0, 0))
            elif np.any(np.abs(gl - want) > tol):
                j = np.unravel_index(int(np.argmax(np.abs(gl - want))), gl.shape)
                bad.append((pname, f"entry {j}: handed to the optimizer {gl[j]!r}, contrastive-divergence gradient {want[j]!r} (tol {tol:.1e})", gl[j], want[j]))
        if best is None or len(bad) < len(best):
            best = bad
    ctx.count("named_gradients_compared", len(step["grads"]))
    if best and verdict:
        pname, msg, _, _ = best[0]
        ctx.violation("optimizer-gradient", f"{pname}: {msg} [|pos|={len(rows)}, |neg|={len(neg_b)}, k={cfg['k']}, kappa={kappa:.1e}]",
                      tags=dict(tags, param=pname.split('.')[1], net=pname.split('.')[0]), witness=wit)
    # SGD update: p_after = p_before - lr * grad, lr as scheduled
    for pname, g in step["grads"].items():
        if g is None:
            continue
        lr = step["lr"][pname]
        if abs(lr - lr_expected) > 1e-15 * max(1.0, abs(lr_expected)) * 4:
            ctx.violation("learning-rate", f"step used lr={lr!r}, expected {lr_expected!r}", tags=tags, witness=wit)
            break
        b, a = step["before"][pname].numpy(), step["after"][pname].numpy()
        want = b - lr * g.numpy()
        ulp = 4 * np.finfo(float).eps * np.maximum(np.abs(b), np.abs(lr * g.numpy())) + 1e-300
        ctx.count("updates_checked")
        if np.any(np.abs(a - want) > ulp):
            j = np.unravel_index(int(np.argmax(np.abs(a - want) - ulp)), a.shape)
            ctx.violation("sgd-update", f"{pname}{j}: before {b[j]!r}, grad {g.numpy()[j]!r}, lr {lr}, after {a[j]!r} != before - lr*grad = {want[j]!r}",
                          tags=dict(tags, param=pname.split('.')[1]), witness=wit)
            break
    # the returned gradient vectors are what was written into .grad (per network, parameters() order)
    if ret is not None and isinstance(ret["result"], list):
        nets = ["rbm_am"] + (["rbm_ph"] if kind != "positive" else [])
        for vec, net in zip(ret["result"], nets):
            names = [n for n in step["grads"] if n.startswith(net + ".")]
            cat = torch.cat([step["grads"][n].reshape(-1) for n in names]) if names and all(step["grads"][n] is not None for n in names) else None
            if cat is not None and isinstance(vec, torch.Tensor) and not bool(torch.isfinite(cat).all()):
                ctx.count("non_finite_gradient_steps_seen")  # training diverged (huge lr): identity of NaNs is not an equality question
                continue
            if cat is not None and isinstance(vec, torch.Tensor) and (vec.numel() != cat.numel() or not torch.equal(vec.reshape(-1), cat)):
                ctx.violation("grad-write-back", f"{net}: the vector returned by compute_batch_gradients is not what the optimizer saw on the parameters",
                              tags=tags, witness=wit)
