"""C14 - seeded runs are reproducible and evaluation never alters the model.

Events: per operation of a generated history (construct, reinitialise, sample,
statistics, observable apply, metrics, rotate, gradients, save, fit): sha256 of
the outputs / parameters; L3b list of RNG draws with their source and foreign-RNG
audit; L3a protected-write log and parameter digests around every read-only op.
Oracle: (i) identical digest sequences of two runs with the same seed executed in
FRESH subprocesses with different PYTHONHASHSEED / numpy / random states and
foreign draws interleaved in one of them; (ii) zero draws from non-torch sources
inside library frames; (iii) a different seed changes the sampled outputs;
(iv) no protected write, identical parameter digests across read-only ops.
"""
import json
import os
import subprocess
import tempfile

import numpy as np

from vlib import bootstrap, c14_hist, monitors
from vlib.runner import np_rng

ID = "C14"
RULE = ("one case = a batch of 5 generated histories (6..11 operations each over the public API, three state types, random fit "
        "configuration) executed (a) in-process under the RNG-source audit and the protected-storage write sanitizer and (b) in "
        "three fresh child processes: A and B with the same seed but different PYTHONHASHSEED / numpy / random states and foreign "
        "draws interleaved in B, C with a different seed. Non-trivial: history with >= 3 operations of >= 2 kinds incl. a "
        "sampling and a training operation; distinct by the history digest.")
REQUIRED = ["in_process_vs_fresh_process_comparisons", "histories_run_in_process", "histories_compared_across_processes", "operation_digests_compared", "torch_rng_draws_observed",
            "foreign_rng_probe_calls", "read_only_ops_guarded", "protected_write_ops_inspected", "different_seed_comparisons"]
ANCHOR_FILES = ["qucumber/__init__.py"]
REACH = [
    ("qucumber/__init__.py", r"torch\.manual_seed\(seed\)", "set_random_seed cpu"),
    ("qucumber/nn_states/neural_state.py", r"pos_batch_perm = torch\.randperm", "_shuffle_data"),
    ("qucumber/rbm/binary_rbm.py", r"gen_tensor = torch\.zeros if zero_weights else torch\.randn", "BinaryRBM initialiser"),
    ("qucumber/rbm/purification_rbm.py", r"gen_tensor = torch\.zeros if zero_weights else torch\.randn", "PurificationRBM initialiser"),
]
ASSUMPTIONS = ["bit-identical reproducibility is established for this machine's torch build with one intra-op thread",
               "two different seeds give different 64x3+ Bernoulli draws (collision probability negligible)"]
EVAL_COUNTER = "histories_run_in_process"
MIN_PER_WORKER = 1
TIMEOUT = {"quick": 900, "thorough": 7200}
SEEDS = [0, 1, 2 ** 31 - 1, 2 ** 63 - 1, 1234, 42]


def cases(tier, seed):
    n = 8 if tier == "quick" else 120
    return [{"batch": i, "seed": seed} for i in range(n)]


class Hooks:
    def __init__(self, ctx, spec):
        self.ctx, self.spec = ctx, spec
        self.mon = None
        self.pd = None
        self.rng_ops = 0

    def before(self, op, st):
        if op in c14_hist.READ_ONLY:
            self.pd = monitors.params_digest(st)
            self.mon = monitors.DispatchMonitor()
            for nm, p in monitors.params_of(st).items():
                self.mon.protect("param:" + nm, p.data)
            self.mon.__enter__()

    def after(self, op, st):
        if self.mon is not None:
            self.mon.__exit__(None, None, None)
            ctx = self.ctx
            ctx.count("read_only_ops_guarded")
            ctx.count("protected_write_ops_inspected", self.mon.write_ops)
            ctx.count("torch_rng_draws_observed", len(self.mon.rng_ops))
            for name, src in self.mon.rng_ops:
                if src != "default":
                    ctx.seen("explicit_generators", name)
            for w in self.mon.writes:
                ctx.violation("parameter-written-by-evaluation", f"{op} wrote to {w['target']} via {w['op']}",
                              tags={"op": op, "state": self.spec["kind"]}, witness=w)
            if monitors.params_digest(st) != self.pd:
                ctx.violation("parameters-changed-by-evaluation", f"{op} changed the model parameters", tags={"op": op, "state": self.spec["kind"]})
            self.mon = None


def spawn(specs, mode, hashseed, tmp):
    path = os.path.join(tmp, f"specs_{mode}.json")
    with open(path, "w") as f:
        json.dump(specs, f)
    env = dict(os.environ, PYTHONHASHSEED=str(hashseed), OMP_NUM_THREADS="1", MKL_NUM_THREADS="1", MPLBACKEND="Agg")
    out = open(os.path.join(tmp, f"out_{mode}.txt"), "w")
    p = subprocess.Popen([bootstrap.PY, "-m", "vlib.c14_hist", path, "B" if mode == "B" else "A"], cwd=bootstrap.VERIF, env=env,
                         stdout=out, stderr=subprocess.STDOUT)
    return p, out, mode, tmp


def collect(h):
    p, out, mode, tmp = h
    try:
        p.wait(timeout=600)
    except subprocess.TimeoutExpired:
        p.kill()
        p.wait()
        raise RuntimeError(f"child {mode} timed out")
    out.close()
    text = open(os.path.join(tmp, f"out_{mode}.txt")).read()
    for line in text.splitlines():
        if line.startswith("@@RESULT@@"):
            return json.loads(line[len("@@RESULT@@"):])
    raise RuntimeError(f"child {mode} produced no result: rc={p.returncode} {text[-800:]}")


def run_case(case, ctx):
    rng = np_rng(ID, case["seed"], case["batch"])
    specs = []
    for j in range(5):
        hid = case["batch"] * 5 + j
        specs.append(c14_hist.make_spec(rng, hid, SEEDS[hid % len(SEEDS)]))
    # ---- (ii) + (iv): in-process, under the monitors
    inproc = {}
    for spec in reversed(specs):  # another order than in the children: a history must not depend on its predecessors
        hooks = Hooks(ctx, spec)
        with monitors.ForeignRNGAudit(bootstrap.REPO) as audit:
            mon_all = None
            try:
                inproc[str(spec["hid"])] = ctx.lib("history", c14_hist.run_history, spec, hooks=hooks, tags={"state": spec["kind"]})
            finally:
                if hooks.mon is not None:
                    hooks.mon.__exit__(None, None, None)
                    hooks.mon = None
        ctx.count("histories_run_in_process")
        ctx.count("foreign_rng_probe_calls", audit.probe_calls + 1)
        for label, site in audit.calls:
            if label == "os.urandom" or label.endswith(".seed"):
                # entropy / seeding calls made by imports that happen to run under a library frame: not a draw
                ctx.count("entropy_or_seed_calls_under_library_frames")
                ctx.seen("entropy_call_sites", f"{label}@{site.split('/qucumber/')[-1]}")
                continue
            ctx.violation("foreign-rng-draw", f"the library drew from {label} at {site}: results depend on a random source that "
                          "set_random_seed does not control", tags={"source": label.split(".")[0], "state": spec["kind"]},
                          witness={"site": site})
    # ---- (i) + (iii): fresh processes
    tmp = tempfile.mkdtemp(prefix="verif-c14-", dir="/var/tmp")
    try:
        specs_c = [dict(s, seed=(s["seed"] + 17) % (2 ** 63 - 1) + 1) for s in specs]
        hs = [spawn(specs, "A", 1, tmp), spawn(specs, "B", 987654, tmp), spawn(specs_c, "C", 1, tmp)]
        A, B, C = [collect(h) for h in hs]
    finally:
        import shutil

        shutil.rmtree(tmp, ignore_errors=True)
    for spec in specs:
        h = str(spec["hid"])
        a, b, c = A.get(h), B.get(h), C.get(h)
        tags = {"state": spec["kind"]}
        for nm, r in (("A", a), ("B", b), ("C", c)):
            if isinstance(r, dict):
                ctx.violation("exception", f"history {h} raised in child {nm}: {r['error']}", tags=dict(tags, exc=r["error"].split(":")[0]),
                              witness={"traceback": r.get("tb", "")})
        if isinstance(a, dict) or isinstance(b, dict) or isinstance(c, dict) or a is None or b is None:
            continue
        ctx.count("histories_compared_across_processes")
        ctx.count("operation_digests_compared", len(a))
        if a != b:
            k = next((i for i, (x, y) in enumerate(zip(a, b)) if x != y), min(len(a), len(b)))
            ctx.violation("not-reproducible", f"history {h} ({spec['kind']}, seed {spec['seed']}): two identically seeded runs diverge at "
                          f"operation {k} ({a[k][0] if k < len(a) else 'END'}) although only the numpy / random / hash-seed state of the "
                          f"process differed; ops: {spec['ops']}", tags=dict(tags, op=a[k][0] if k < len(a) else "END"),
                          witness={"spec": spec})
        # the same seeded history run in THIS process (which has executed other histories before it) must give the same
        # digests as in the fresh child: nothing may leak from earlier runs (class-level / module-level state)
        ip = inproc.get(h)
        if ip is not None:
            ctx.count("in_process_vs_fresh_process_comparisons")
            if [list(x) for x in ip] != [list(x) for x in a]:
                k = next((i for i, (x, y) in enumerate(zip(ip, a)) if list(x) != list(y)), min(len(ip), len(a)))
                ctx.violation("depends-on-process-history", f"history {h} ({spec['kind']}, seed {spec['seed']}): the seeded run gives different "
                              f"results in a process that has run other histories before than in a fresh process, first at operation "
                              f"{k} ({a[k][0] if k < len(a) else 'END'})", tags=dict(tags, op=a[k][0] if k < len(a) else "END"), witness={"spec": spec})
        ctx.count("different_seed_comparisons")
        sa = [d for op, d in a if op in ("construct", "sample")]
        sc = [d for op, d in c if op in ("construct", "sample")]
        if sa and sa == sc:
            ctx.violation("seed-has-no-effect", f"history {h}: a different seed produced identical initial weights and samples", tags=tags,
                          witness={"spec": spec})
        kinds = {op for op in spec["ops"]}
        if len(spec["ops"]) >= 3 and len(kinds) >= 2 and "fit" in kinds and kinds & {"sample", "sample_cont", "statistics"}:
            ctx.mark_nontrivial(monitors.digest(spec))
        ctx.seen("seeds", spec["seed"])
        ctx.seen("seeding_call_forms", spec.get("seed_form"))
        ctx.seen("op_kinds", tuple(sorted(kinds)))
    ctx.sample({"case": case, "history": specs[0]})
