"""C11 - saving and reloading reproduces the state exactly and has no side effects.

Events: a history of operations over several models and files drawn from
{randomise, train, save(metadata variant), save-again with the SAME metadata
object, load, autoload, save with a reserved key, ModelSaver periods}; after
each: bitwise parameters / unitary dictionary of every live model, torch.load of
the written file, identity / keys / deep digest of the metadata object;
L3a write sanitizer on the parameters during save.
Oracle: executable model  file -> snapshot taken at save time.
"""
import copy
import os
import shutil
import tempfile

import numpy as np
import torch

from vlib import gen, monitors, refmodel as R
from vlib.runner import np_rng

ID = "C11"
RULE = ("one case = one random history (8..14 operations) over 2-3 models (three state types, num_hidden/num_aux different "
        "from num_visible, non-zero biases, custom unitary dictionaries) and 3 files, with metadata in {None, {}, flat, "
        "nested, tensor-valued}. Non-trivial: >= 3 operations of >= 2 kinds including a save and a load/autoload; distinct "
        "by the operation sequence + initial parameters.")
REQUIRED = ["files_rewritten_after_load", "saves", "save_again_same_metadata", "loads", "autoloads", "reserved_key_rejections", "file_content_checks",
            "metadata_unchanged_checks", "modelsaver_saves", "protected_write_ops_inspected", "custom_dictionary_roundtrips"]
ANCHOR_FILES = ["qucumber/nn_states/neural_state.py", "qucumber/callbacks/model_saver.py"]
REACH = [
    ("qucumber/nn_states/neural_state.py", r"torch\.save\(data, location\)", "save"),
    ("qucumber/nn_states/neural_state.py", r"getattr\(self, net\)\.load_state_dict\(state_dict\[net\]\)", "load"),
    ("qucumber/nn_states/positive_wavefunction.py", r"wvfn\.load\(location\)", "PositiveWaveFunction.autoload"),
    ("qucumber/nn_states/complex_wavefunction.py", r"wvfn\.load\(location\)", "ComplexWaveFunction.autoload"),
    ("qucumber/nn_states/density_matrix.py", r"nn_state\.load\(location\)", "DensityMatrix.autoload"),
    ("qucumber/callbacks/model_saver.py", r"nn_state\.save\(save_path, metadata\)", "ModelSaver._save"),
    ("qucumber/nn_states/neural_state.py", r"raise ValueError\(f\"Invalid key in metadata; '\{net\}'", "reserved network key"),
]
ASSUMPTIONS = ["metadata restricted to what torch.load (weights-only unpickler of the installed torch) can load"]
MIN_PER_WORKER = 2


def cases(tier, seed):
    n = 60 if tier == "quick" else 12000
    return [{"rep": i, "seed": seed} for i in range(n)]


def new_model(rng, kind):
    from qucumber.utils import unitaries

    nv = int(rng.integers(1, 5))
    nh = nv + int(rng.integers(1, 3))
    na = nv + int(rng.integers(2, 4))
    # "whatever state is saved": every parameter of every network may carry a value, the phase network's auxiliary bias (which
    # the library itself keeps at zero) included - a hand-set or externally produced model is saved and restored bit for bit
    am, ph = gen.draw_model(rng, kind, nv, nh, na, scales=[0.3, 1.0, 3.0], phase_aux_bias=bool(rng.integers(0, 2)))
    ud = None
    custom = False
    if kind != "positive" and rng.random() < 0.6:
        ud = unitaries.create_dict(**{l: gen.enc(gen.haar_2x2(rng)) for l in list("AB")[: int(rng.integers(1, 3))]})
        if rng.random() < 0.4:
            # a dictionary that does NOT contain all default letters (legal: only the letters used in bases are needed)
            for l in list(rng.choice(["X", "Y"], size=int(rng.integers(1, 3)), replace=False)):
                ud.pop(str(l), None)
        custom = True
    st = gen.make_state(kind, am, ph, unitary_dict=ud)
    return {"kind": kind, "st": st, "custom": custom, "last_md": None}


def snap(m):
    st = m["st"]
    s = {"kind": m["kind"], "params": monitors.params_snapshot(st),
         "arch": (st.num_visible, st.num_hidden, getattr(st, "num_aux", None)),
         "udict": None if not hasattr(st, "unitary_dict") else {k: v.clone() for k, v in st.unitary_dict.items()}}
    return s


def full_digest(st):
    """parameters AND unitary dictionary (tensors of a loaded model may alias / map the file they came from)"""
    ud = getattr(st, "unitary_dict", None) if hasattr(st, "unitary_dict") else None
    return monitors.digest([{k: v.data for k, v in monitors.params_of(st).items()}, {} if ud is None else {k: v for k, v in ud.items()}])


def same_params(a, b):
    return set(a) == set(b) and all(a[k].shape == b[k].shape and torch.equal(a[k], b[k]) for k in a)


def same_udict(a, b):
    if a is None or b is None:
        return a is None and b is None
    return set(a) == set(b) and all(torch.equal(a[k].to(torch.double), b[k].to(torch.double)) for k in a)


def md_variant(rng):
    k = int(rng.integers(0, 6))
    if k == 5:
        # tensors that are views of a larger buffer the caller keeps filling (a loss history), inside a nested dict
        buf = torch.zeros(8, dtype=torch.double)
        buf[:3] = torch.tensor(rng.normal(size=3))
        return {"history": {"loss": buf[:3], "all": buf}, "n": 3}
    if k == 0:
        return None
    if k == 1:
        return {}
    if k == 2:
        # plain names a library might want for itself but does not reserve ("version", "date", "name", "device")
        return {"epoch": int(rng.integers(0, 100)), "note": "run-" + str(int(rng.integers(0, 9))), "lr": 0.01,
                "version": int(rng.integers(1, 9)), "name": "experiment", "date": "2019-01-01", "device": "tape"}
    if k == 3:
        return {"cfg": {"lr": 0.1, "sizes": [1, 2, 3], "tag": ("a", 2)}, "flag": True}
    return {"t": torch.tensor(rng.normal(size=(2, 3))), "v": torch.arange(4)}


def md_objects(md, out=None):
    """ids of every container / tensor object reachable from the caller's metadata (saving must leave the very objects in
    place, not only equal values: the caller goes on updating them in place)"""
    out = [] if out is None else out
    if isinstance(md, dict):
        out.append(id(md))
        for v in md.values():
            md_objects(v, out)
    elif isinstance(md, (list, tuple)):
        out.append(id(md))
        for v in md:
            md_objects(v, out)
    elif isinstance(md, torch.Tensor):
        out.append((id(md), md.data_ptr()))
    return out


def md_equal(a, b):
    if isinstance(a, torch.Tensor) or isinstance(b, torch.Tensor):
        return isinstance(a, torch.Tensor) and isinstance(b, torch.Tensor) and a.shape == b.shape and torch.equal(a, b)
    if isinstance(a, dict):
        return isinstance(b, dict) and set(a) == set(b) and all(md_equal(a[k], b[k]) for k in a)
    if isinstance(a, (list, tuple)):
        return isinstance(b, (list, tuple)) and len(a) == len(b) and all(md_equal(x, y) for x, y in zip(a, b))
    return a == b


def run_case(case, ctx):
    rng = np_rng(ID, case["seed"], case["rep"])
    tmp = tempfile.mkdtemp(prefix="verif-c11-", dir="/var/tmp")
    try:
        history(case, ctx, rng, tmp)
    finally:
        shutil.rmtree(tmp, ignore_errors=True)


def check_file(ctx, path, s, md, tags, wit):
    """torch.load of the written file vs the snapshot taken at save time."""
    data = torch.load(path)
    ctx.count("file_content_checks")
    nets = ["rbm_am"] + (["rbm_ph"] if s["kind"] != "positive" else [])
    for net in nets:
        if net not in data:
            ctx.violation("file-missing-network", f"{net} missing from the saved file", tags=tags, witness=wit)
            return
        for pname, val in data[net].items():
            key = f"{net}.{pname}"
            if key not in s["params"] or not torch.equal(val, s["params"][key]):
                ctx.violation("file-parameters", f"saved {key} differs from the model's parameters at save time", tags=tags, witness=wit)
                return
        if set(f"{net}.{k}" for k in data[net]) != {k for k in s["params"] if k.startswith(net + ".")}:
            ctx.violation("file-parameters", f"{net}: saved parameter names {sorted(data[net])}", tags=tags, witness=wit)
    if s["udict"] is not None and not same_udict(data.get("unitary_dict"), s["udict"]):
        ctx.violation("file-unitary-dict", "saved unitary dictionary differs from the model's", tags=tags, witness=wit)
    for k, v in (md or {}).items():
        if k not in data or not md_equal(data[k], v):
            ctx.violation("file-metadata", f"metadata key {k!r} not stored alongside (got {str(data.get(k))[:80]})", tags=tags, witness=wit)


def rewrite_after_load(ctx, rng, models, mi, tmp, fname, files, tags, wit, ops_done):
    """history: the file a model was just loaded from is rewritten by ANOTHER model with other metadata (what a ModelSaver
    with a fixed file name does); the loaded model must keep its parameters and dictionary"""
    if len(models) < 2 or rng.random() < 0.4:
        return
    oj = [j for j in range(len(models)) if j != mi][int(rng.integers(0, len(models) - 1))]
    before = full_digest(models[mi]["st"])
    md = {"pad": "x" * int(rng.integers(1, 4000)), "n": int(rng.integers(0, 9))}
    path = os.path.join(tmp, fname)
    ctx.lib("save(over the file another model was loaded from)", models[oj]["st"].save, path, md, tags=tags)
    ctx.count("files_rewritten_after_load")
    files[fname] = dict(snap(models[oj]), md=dict(md))
    models[oj]["last_md"] = (md, fname)
    ops_done.append(f"save m{oj} -> {fname} (rewrite after load)")
    if full_digest(models[mi]["st"]) != before:
        ctx.violation("loaded-model-tied-to-file", f"model {mi}, loaded from {fname}, changed when the file was rewritten by another model",
                      tags=tags, witness=wit)


def cross_type_load(ctx, rng, tmp):
    """A file written by a ComplexWaveFunction loaded into a PositiveWaveFunction of the same amplitude shape (a compatible
    model for its amplitude network): the parameters arrive bit-identically and the positive state stays a positive state - what
    it accepts as metadata and what it writes afterwards is what a positive state that never loaded anything accepts and
    writes (differential against the library's own behaviour before the load)."""
    from qucumber.nn_states import PositiveWaveFunction
    from qucumber.utils import unitaries as _un

    nv, nh = int(rng.integers(1, 4)), int(rng.integers(1, 4))
    amc, phc = gen.draw_model(rng, "complex", nv, nh, scales=[0.5, 1.0])
    cw = gen.make_state("complex", amc, phc, unitary_dict=_un.create_dict(Q=gen.enc(gen.haar_2x2(rng))))
    src = os.path.join(tmp, "cross.pt")
    cw.save(src, {"note": "from a complex state"})
    amp, _ = gen.draw_model(rng, "positive", nv, nh, scales=[0.5])
    fresh, pw = gen.make_state("positive", amp, None), gen.make_state("positive", amp, None)
    tags = {"state": "positive", "op": "cross-type load"}
    ctx.lib("load(complex file into a positive state)", pw.load, src, tags=tags)
    ctx.count("cross_type_loads")
    for n_, p_ in pw.rbm_am.named_parameters():
        if not torch.equal(p_.data, dict(cw.rbm_am.named_parameters())[n_].data):
            ctx.violation("load-parameters", f"rbm_am.{n_} of the positive state differs from the file's after load", tags=tags)
    md = {"unitary_dict": "my own note", "x": 3}
    outcome = []
    for who, st_ in (("never loaded", fresh), ("after the load", pw)):
        path = os.path.join(tmp, f"cross_{len(outcome)}.pt")
        try:
            st_.save(path, dict(md))
            outcome.append(("saved", sorted(torch.load(path).keys())))
            st_.save(path)
            outcome[-1] += (sorted(torch.load(path).keys()),)
        except Exception as e:  # noqa: BLE001
            outcome.append(("refused", type(e).__name__))
    if outcome[0] != outcome[1]:
        ctx.violation("load-changed-model-kind", f"a positive state that loaded a complex state's file handles metadata {md} differently afterwards: "
                      f"never loaded -> {outcome[0]}, after the load -> {outcome[1]}", tags=tags)


def history(case, ctx, rng, tmp):
    from qucumber.callbacks import ModelSaver
    from qucumber.nn_states import ComplexWaveFunction, DensityMatrix, PositiveWaveFunction

    CLS = {"positive": PositiveWaveFunction, "complex": ComplexWaveFunction, "mixed": DensityMatrix}
    kinds = [gen.KINDS[(case["rep"] + j) % 3] for j in range(int(rng.integers(2, 4)))]
    models = [new_model(rng, k) for k in kinds]
    files = {}
    ops_done = []
    nops = int(rng.integers(8, 15))
    wit = {"ops": ops_done}
    for step in range(nops):
        op = rng.choice(["randomise", "train", "save", "save", "save_again", "load", "autoload", "reserved", "modelsaver"])
        mi = int(rng.integers(0, len(models)))
        m = models[mi]
        st = m["st"]
        tags = {"state": m["kind"], "op": str(op)}
        others = [(j, full_digest(x["st"])) for j, x in enumerate(models) if j != mi]
        if op == "randomise":
            ctx.lib("reinitialize_parameters", st.reinitialize_parameters, tags=tags)
            am, ph = gen.draw_model(rng, m["kind"], st.num_visible, st.num_hidden, getattr(st, "num_aux", None) or 1, scales=[0.3, 1.0],
                                    phase_aux_bias=bool(rng.integers(0, 2)))
            gen.set_params(st.rbm_am, am)
            if ph is not None:
                gen.set_params(st.rbm_ph, ph)
            ops_done.append(f"randomise m{mi}")
        elif op == "train":
            nv = st.num_visible
            data = torch.tensor(R.space(nv)[rng.integers(0, 2 ** nv, size=5)], dtype=torch.double)
            kw = {}
            if m["kind"] != "positive":
                alphabet = sorted(set(st.unitary_dict) | {"Z"})
                b = gen.random_bases(rng, 5, nv, alphabet="".join(alphabet), p_z=0.3)
                b[0] = "Z"
                kw["input_bases"] = b
            ctx.lib("fit", st.fit, data, epochs=1, pos_batch_size=3, lr=0.05, tags=tags, **kw)
            ops_done.append(f"train m{mi}")
        elif op in ("save", "save_again"):
            if op == "save_again":
                if m["last_md"] is None:
                    continue
                md, fname = m["last_md"]
                ctx.count("save_again_same_metadata")
            else:
                md = md_variant(rng)
                fname = f"f{int(rng.integers(0, 3))}.pt"
            path = os.path.join(tmp, fname)
            md_before = copy.deepcopy(md)
            md_id = id(md)
            md_objs = md_objects(md)
            before = snap(m)
            mon = monitors.DispatchMonitor()
            for nm, p_ in monitors.params_of(st).items():
                mon.protect("param:" + nm, p_.data)
            as_file = rng.random() < 0.3
            with mon:
                if as_file:  # "location: str or file"
                    with open(path, "wb") as fh:
                        ctx.lib("save(file object)", st.save, fh, md, tags=dict(tags, metadata=type(md).__name__, again=op == "save_again"))
                    ctx.count("saves_to_file_objects")
                else:
                    ctx.lib("save", st.save, path, md, tags=dict(tags, metadata=type(md).__name__, again=op == "save_again"))
            ctx.count("saves")
            ctx.count("protected_write_ops_inspected", mon.write_ops + 1)
            for w in mon.writes:
                ctx.violation("protected-write", f"save wrote to {w['target']} via {w['op']}", tags=tags, witness=w)
            after = snap(m)
            if not same_params(before["params"], after["params"]) or not same_udict(before["udict"], after["udict"]):
                ctx.violation("save-changed-model", "save changed the model", tags=tags, witness=wit)
            ctx.count("metadata_unchanged_checks")
            if md_objects(md) != md_objs:
                ctx.violation("save-changed-metadata", "save replaced objects inside the caller's metadata (nested containers / tensors are no longer "
                              "the caller's own objects)", tags=dict(tags, added_keys="", replaced_objects=True), witness=wit)
            if id(md) != md_id or not md_equal(md, md_before):
                extra = sorted(set(md or {}) - set(md_before or {}))
                ctx.violation("save-changed-metadata", f"save modified the caller's metadata object (new keys: {extra})",
                              tags=dict(tags, added_keys=",".join(extra)), witness=wit)
                # keep the history going with the caller's original content
            check_file(ctx, path, before, md_before, tags, wit)
            files[fname] = dict(before, md=md_before)
            m["last_md"] = (md, fname)
            ops_done.append(f"{op} m{mi} -> {fname} md={type(md).__name__}")
        elif op == "load":
            cands = [f for f, s in files.items() if s["kind"] == m["kind"] and s["arch"] == (st.num_visible, st.num_hidden, getattr(st, "num_aux", None))]
            if not cands:
                continue
            fname = cands[int(rng.integers(0, len(cands)))]
            if rng.random() < 0.6:
                # load into a freshly built compatible model whose parameters AND dictionary differ from the file's
                from qucumber.utils import unitaries as _un

                a_ = files[fname]["arch"]
                am2, ph2 = gen.draw_model(rng, m["kind"], a_[0], a_[1], a_[2] or 1, scales=[0.5])
                ud2 = None if m["kind"] == "positive" else _un.create_dict(Q=gen.enc(gen.haar_2x2(rng)), X=gen.enc(gen.haar_2x2(rng)))
                st = gen.make_state(m["kind"], am2, ph2, unitary_dict=ud2)
                m = {"kind": m["kind"], "st": st, "custom": True, "last_md": None}
                models[mi] = m
                ctx.count("loads_into_fresh_model")
            if rng.random() < 0.3:
                with open(os.path.join(tmp, fname), "rb") as fh:
                    ctx.lib("load(file object)", st.load, fh, tags=tags)
                ctx.count("loads_from_file_objects")
            else:
                ctx.lib("load", st.load, os.path.join(tmp, fname), tags=tags)
            ctx.count("loads")
            s = files[fname]
            now = snap(m)
            if not same_params(now["params"], s["params"]):
                ctx.violation("load-parameters", f"parameters after load({fname}) are not bit-identical to those saved", tags=tags, witness=wit)
            if not same_udict(now["udict"], s["udict"]):
                ctx.violation("load-unitary-dict", f"unitary dictionary after load({fname}) differs from the one saved "
                              f"(saved keys {sorted(s['udict'] or {})}, now {sorted(now['udict'] or {})})", tags=tags, witness=wit)
            if s["udict"] and set(s["udict"]) - {"X", "Y", "Z"}:
                ctx.count("custom_dictionary_roundtrips")
            ops_done.append(f"load m{mi} <- {fname}")
            rewrite_after_load(ctx, rng, models, mi, tmp, fname, files, tags, wit, ops_done)
        elif op == "autoload":
            if not files:
                continue
            fname = sorted(files)[int(rng.integers(0, len(files)))]
            s = files[fname]
            new = ctx.lib("autoload", CLS[s["kind"]].autoload, os.path.join(tmp, fname), gpu=False, tags=dict(tags, state=s["kind"]))
            ctx.count("autoloads")
            nm = {"kind": s["kind"], "st": new, "custom": False, "last_md": None}
            now = snap(nm)
            if type(new) is not CLS[s["kind"]] or now["arch"] != s["arch"]:
                ctx.violation("autoload-architecture", f"autoload({fname}) built {type(new).__name__} with sizes {now['arch']}, saved {s['arch']}",
                              tags=dict(tags, state=s["kind"]), witness=wit)
            elif not same_params(now["params"], s["params"]):
                ctx.violation("autoload-parameters", f"parameters after autoload({fname}) are not bit-identical", tags=dict(tags, state=s["kind"]), witness=wit)
            if not same_udict(now["udict"], s["udict"]):
                ctx.violation("autoload-unitary-dict", f"unitary dictionary after autoload({fname}) differs", tags=dict(tags, state=s["kind"]), witness=wit)
            if s["udict"] and set(s["udict"]) - {"X", "Y", "Z"}:
                ctx.count("custom_dictionary_roundtrips")
            models[mi] = nm
            others = [(j, d) for j, d in others]
            ops_done.append(f"autoload {fname} -> m{mi}")
            rewrite_after_load(ctx, rng, models, mi, tmp, fname, files, tags, wit, ops_done)
        elif op == "reserved":
            keys = ["rbm_am"] + (["rbm_ph", "unitary_dict"] if m["kind"] != "positive" else [])
            key = keys[int(rng.integers(0, len(keys)))]
            path = os.path.join(tmp, "f0.pt")
            had = open(path, "rb").read() if os.path.exists(path) else None
            val = [1, None, 0, {}, "", 2.5][int(rng.integers(0, 6))]  # a reserved NAME is refused whatever it maps to
            ok = ctx.must_raise(f"save(metadata with reserved key {key}={val!r})", ValueError, st.save, path, {key: val, "x": 2},
                                tags=dict(tags, key=key, falsy=not val))
            if ok:
                ctx.count("reserved_key_rejections")
            now = open(path, "rb").read() if os.path.exists(path) else None
            if ok and now != had:
                ctx.violation("refused-save-wrote-file", "a refused save still changed the file", tags=tags, witness=wit)
            if not ok and "f0.pt" in files:
                del files["f0.pt"]
            ops_done.append(f"reserved m{mi} {key}")
        else:  # modelsaver: the same dict metadata object over several periods
            md = {"run": "ms", "n": 3}
            md_before = copy.deepcopy(md)
            folder = os.path.join(tmp, f"ms{step}")
            # documented argument order (period, folder_path, file_name, save_initial, metadata, metadata_only): keyword and
            # positional call forms mean the same
            ms = ModelSaver(1, folder, "ep_{}.pt", save_initial=True, metadata=md) if step % 3 else ModelSaver(1, folder, "ep_{}.pt", True, md)
            # the caller goes on filling its dict after handing it to the saver (an empty dict completed before fit, a value
            # updated by another callback): what is stored alongside is the dict as it is WHEN a file is written
            md["filled_in_later"] = int(step)
            md_before = copy.deepcopy(md)
            try:
                ctx.lib("ModelSaver.on_train_start", ms.on_train_start, st, tags=tags)
                ctx.count("modelsaver_saves")
                check_file(ctx, os.path.join(folder, "ep_initial.pt"), snap(m), md_before, tags, wit)
                md["n"] = md["n"] + 1
                md_before = copy.deepcopy(md)
                for ep in (1, 2, 3):
                    ctx.lib("ModelSaver.on_epoch_end", ms.on_epoch_end, st, ep, tags=dict(tags, epoch=ep))
                    ctx.count("modelsaver_saves")
                    check_file(ctx, os.path.join(folder, f"ep_{ep}.pt"), snap(m), md_before, tags, wit)
                # a second run into the same folder after the model moved on (training resumed, or another experiment
                # re-using the folder): every file written again holds the state and metadata at THAT time
                am2, ph2 = gen.draw_model(rng, m["kind"], st.num_visible, st.num_hidden, getattr(st, "num_aux", None) or 1, scales=[0.3, 1.0])
                gen.set_params(st.rbm_am, am2)
                if ph2 is not None:
                    gen.set_params(st.rbm_ph, ph2)
                md2 = {"run": "ms-second", "n": 4}
                ms2 = ModelSaver(1, folder, "ep_{}.pt", save_initial=True, metadata=md2) if step % 2 else ms
                ms2.metadata = md2
                ctx.lib("ModelSaver.on_train_start(second run, same folder)", ms2.on_train_start, st, tags=tags)
                check_file(ctx, os.path.join(folder, "ep_initial.pt"), snap(m), md2, dict(tags, rerun=True), wit)
                ctx.lib("ModelSaver.on_epoch_end(second run, same folder)", ms2.on_epoch_end, st, 2, tags=dict(tags, epoch=2))
                check_file(ctx, os.path.join(folder, "ep_2.pt"), snap(m), md2, dict(tags, rerun=True), wit)
                ctx.count("modelsaver_saves", 2)
                ctx.count("modelsaver_second_runs_same_folder")
            finally:
                if not md_equal(md, md_before):
                    ctx.violation("save-changed-metadata", f"ModelSaver's metadata dict was modified by saving (keys now {sorted(md)})",
                                  tags=dict(tags, added_keys=",".join(sorted(set(md) - set(md_before)))), witness=wit)
            ops_done.append(f"modelsaver m{mi}")
        for j, d in others:
            if j < len(models) and models[j] is not None and j != mi and full_digest(models[j]["st"]) != d:
                ctx.violation("other-model-changed", f"operation {op} on model {mi} changed model {j} (parameters or unitary dictionary): a "
                              "loaded model must not stay tied to the file it came from", tags=tags, witness=wit)
    cross_type_load(ctx, rng, tmp)
    kinds_done = {o.split()[0] for o in ops_done}
    if len(ops_done) >= 3 and len(kinds_done) >= 2 and any(o.startswith("save") for o in ops_done) and \
            any(o.startswith(("load", "autoload")) for o in ops_done):
        ctx.mark_nontrivial(monitors.digest([ops_done, case["rep"]]))
    ctx.seen("op_kinds", tuple(sorted(kinds_done)))
    ctx.sample({"case": case, "ops": ops_done[:12]})
