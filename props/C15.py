"""C15 - the complex kernel agrees with complex arithmetic.

L2 postconditions (icontract.ensure on the real functions of qucumber.utils.cplx,
recording) evaluated under (a) a synthetic operand generator over shapes x value
classes and (b) library-driven scenarios (rotations, gradients, observables, a
short fit) so that the shapes the library itself produces are covered.
Oracle: numpy complex128 on the decoded operands.
"""
import numpy as np
import torch

from vlib import contracts, gen, refmodel as R
from vlib.runner import np_rng

ID = "C15"
FUNCS = ["make_complex", "numpy", "real", "imag", "scalar_mult", "matmul", "inner_prod", "outer_prod",
         "einsum", "conjugate", "conj", "elementwise_mult", "elementwise_division", "absolute_value",
         "kronecker_prod", "sigmoid", "scalar_divide", "inverse", "norm_sqr", "norm"]
RULE = ("one synthetic case = (function, operand shapes, value class, repetition) with float64 operands from "
        "{zero, +-1, tiny 1e-150, huge 1e150, random, purely real, purely imaginary} (+ the library's float32 "
        "constant cplx.I as either operand); one scenario case = a library-driven computation with the contracts "
        "installed. Non-trivial: operands not all zero; distinct by (function, shapes, value class, operand digest).")
REQUIRED = ["contract_evals." + f for f in FUNCS] + ["rejections_observed", "scenario_contract_evals"]
ANCHOR_FILES = ["qucumber/utils/cplx.py"]
REACH = [
    ("qucumber/utils/cplx.py", r"raise RuntimeError\(\"Can't overwrite an argument!\"\)", "scalar_mult aliasing guard"),
    ("qucumber/utils/cplx.py", r"raise ValueError\(\"Unsupported input shapes!\"\)", "inner_prod rank guard"),
    ("qucumber/utils/cplx.py", r"raise ValueError\(\"An input is not of the right dimension", "outer_prod rank guard"),
    ("qucumber/utils/cplx.py", r"raise ValueError\(\"x and y must have the same shape", "elementwise_division guard"),
    ("qucumber/utils/cplx.py", r"raise ValueError\(\"Inputs must be complex matrices", "kronecker_prod guard"),
    ("qucumber/utils/cplx.py", r"torch\.transpose\(real\(x\), 0, 1\)", "conjugate rank>=2 branch"),
    ("qucumber/utils/cplx.py", r"return make_complex\(torch\.tensor\(x\.real\)", "make_complex numpy branch"),
]
ASSUMPTIONS = ["numpy complex128 arithmetic is the definition of 'native complex arithmetic'",
               "tolerance 50*eps(lowest operand precision)*sum|terms|"]
MIN_PER_WORKER = 40
VCLASSES = ["random", "zero", "pm1", "tiny", "huge", "real", "imag", "mixed_scale", "split_scale"]

SHAPES = {
    "scalar_mult": [((), ()), ((3,), ()), ((), (3,)), ((2, 3), ()), ((3,), (3,)), ((2, 3), (2, 3)), ((2, 3), (3,)),
                    ((4, 1), (1, 5)), ((2, 2, 3), ()), ((2, 3, 2, 2), (2, 3, 2, 2)), ((1,), (1,)), ((2, 2, 5), (5,))],
    "elementwise_mult": [((), ()), ((3,), (3,)), ((2, 3), (2, 3)), ((2, 2, 2), (2, 2, 2)), ((1, 4), (1, 4))],
    "matmul": [((2, 3), (3, 4)), ((2, 3), (3,)), ((1, 1), (1, 1)), ((4, 1), (1, 4)), ((2, 2), (2, 8)), ((3, 3), (3,)),
               ((5, 2, 3), (5, 3, 2)), ((2, 2), (2, 1))],
    "inner_prod": [((4,), (4,)), ((1,), (1,)), ((), ()), ((7,), (7,))],
    "outer_prod": [((3,), (4,)), ((1,), (5,)), ((2,), (2,))],
    "einsum": [("ij,jk->ik", (2, 3), (3, 4)), ("i,i->", (5,), (5,)), ("ib,ibg->bg", (2, 3), (2, 3, 4)),
               ("b,bg->g", (3,), (3, 5)), ("ijb,ijbg->bg", (2, 2, 3), (2, 2, 3, 4)), ("ab,cd->acbd", (2, 2), (2, 3)),
               ("i,j->ij", (3,), (2,)), ("bij,bjk->bik", (2, 2, 3), (2, 3, 1))],
    "conjugate": [((),), ((3,),), ((2, 3),), ((1, 4),), ((2, 3, 4),), ((2, 2, 2, 2),), ((2, 3, 4, 5),), ((3, 3, 3),), ((3, 2, 2, 3),)],
    "conj": [((),), ((3,),), ((2, 3),), ((2, 3, 4),)],
    "elementwise_division": [((), ()), ((3,), (3,)), ((2, 3), (2, 3)), ((2, 1, 3), (2, 1, 3))],
    "absolute_value": [((),), ((3,),), ((2, 3),), ((2, 3, 2),)],
    "kronecker_prod": [((2, 2), (2, 2)), ((1, 3), (2, 1)), ((2, 3), (3, 2)), ((1, 1), (1, 1))],
    "sigmoid": [((),), ((3,),), ((2, 3),), ((2, 2, 3),)],
    "scalar_divide": [((3,), ()), ((2, 3), ()), ((3,), (3,)), ((), ()), ((2, 3), (2, 3)), ((3, 3), (3, 3)), ((2, 2, 2), (2, 2, 2))],
    "inverse": [((),), ((3,),), ((2, 3),), ((3, 3),), ((2, 2, 3),), ((4, 1),)],
    "norm_sqr": [((4,),), ((),), ((1,),)],
    "norm": [((4,),), ((),), ((1,),)],
    "make_complex": [((),), ((3,),), ((2, 3),), ((2, 3, 2),)],
    "numpy": [((),), ((3,),), ((2, 3),)],
    "real": [((),), ((3,),), ((2, 3),)],
    "imag": [((),), ((3,),), ((2, 3),)],
}


def cases(tier, seed):
    reps = 4 if tier == "quick" else 1200
    out = []
    for fn, shp in SHAPES.items():
        for si in range(len(shp)):
            for vc in VCLASSES:
                for r in range(reps):
                    out.append({"t": "syn", "fn": fn, "si": si, "vc": vc, "rep": r, "seed": seed})
    for fn in ["scalar_mult", "matmul", "elementwise_mult", "inner_prod", "scalar_divide"]:
        for pos in (0, 1):
            for r in range(reps):
                out.append({"t": "I", "fn": fn, "pos": pos, "rep": r, "seed": seed})
    for r in range(reps * 2):
        out.append({"t": "out", "rep": r, "seed": seed})
    out.append({"t": "errors", "seed": seed})
    nsc = 6 if tier == "quick" else 600
    for kind in gen.KINDS:
        for r in range(nsc // 3):
            out.append({"t": "scenario", "kind": kind, "rep": r, "seed": seed})
    return out


def setup_worker(ctx):
    from qucumber.utils import cplx, unitaries  # noqa: F401

    contracts.install_cplx(cplx)


def values(rng, shape, vc):
    shape = tuple(shape)
    if vc == "zero":
        z = np.zeros(shape, dtype=complex)
    elif vc == "pm1":
        z = rng.choice([-1.0, 1.0], size=shape) + 1j * rng.choice([-1.0, 0.0, 1.0], size=shape)
    elif vc == "tiny":
        z = (rng.normal(size=shape) + 1j * rng.normal(size=shape)) * 1e-150
    elif vc == "huge":
        z = (rng.normal(size=shape) + 1j * rng.normal(size=shape)) * 1e150
    elif vc == "real":
        z = rng.normal(size=shape) + 0j
    elif vc == "imag":
        z = 1j * rng.normal(size=shape)
    elif vc == "split_scale":
        # real and imaginary parts of very different magnitude (a nearly real or nearly imaginary number): each component
        # of a product is accurate relative to ITS OWN terms, not to the largest component around
        z = rng.normal(size=shape) * 10.0 ** rng.integers(-8, 9, size=shape) + 1j * rng.normal(size=shape) * 10.0 ** rng.integers(-8, 9, size=shape)
    elif vc == "mixed_scale":
        z = (rng.normal(size=shape) + 1j * rng.normal(size=shape)) * 10.0 ** rng.integers(-8, 9, size=shape)
    else:
        z = rng.normal(size=shape) + 1j * rng.normal(size=shape)
    return np.asarray(z, dtype=complex).reshape(shape)


def drain(ctx, tags=None):
    for al in contracts.REC.drain():
        if al["witness"].get("harness"):
            raise RuntimeError("contract oracle failed: " + al["msg"])
        ctx.violation("contract:" + al["contract"], al["msg"], tags=dict(tags or {}, contract=al["contract"]),
                      witness={"stack": al["stack"]})


def flush_counts(ctx, key="contract_evals."):
    for k, v in contracts.REC.evals.items():
        if k.startswith("cplx."):
            ctx.count(key + k[5:], v)
        else:
            ctx.count(key + k, v)
    contracts.REC.evals.clear()
    for s in contracts.REC.shapes:
        ctx.seen("contract_shapes", s)
    contracts.REC.shapes.clear()


def run_case(case, ctx):
    from qucumber.utils import cplx

    rng = np_rng(ID, case["seed"], *[case.get(k) for k in ("t", "fn", "si", "vc", "rep", "pos", "kind")])
    t = case["t"]
    if t == "syn":
        fn, vc = case["fn"], case["vc"]
        spec = SHAPES[fn][case["si"]]
        f = getattr(cplx, fn)
        if fn == "einsum":
            eq, s1, s2 = spec
            a, b = values(rng, s1, vc), values(rng, s2, vc)
            ops = [a, b]
            for rp, ip in ((True, True), (True, False), (False, True), (False, False)):
                ctx.lib("cplx.einsum", f, eq, gen.enc(a), gen.enc(b), real_part=rp, imag_part=ip)
        elif fn == "sigmoid":
            z = values(rng, spec[0], vc)
            if vc == "huge":
                z = z / 1e150 * 100.0
            z = np.clip(z.real, -340, 340) + 1j * z.imag
            ops = [z]
            ctx.lib("cplx.sigmoid", f, torch.tensor(z.real, dtype=torch.double), torch.tensor(z.imag, dtype=torch.double))
        elif fn == "make_complex":
            z = values(rng, spec[0], vc)
            ops = [z]
            x, y = torch.tensor(z.real, dtype=torch.double), torch.tensor(z.imag, dtype=torch.double)
            ctx.lib("cplx.make_complex", f, x, y)
            ctx.lib("cplx.make_complex(x)", f, x)
            r = ctx.lib("cplx.make_complex(ndarray)", f, np.asarray(z))
            if np.asarray(z).ndim and not r.is_contiguous():
                ctx.violation("make-complex-not-contiguous", "make_complex(ndarray) result not contiguous")
        else:
            ops = [values(rng, s, vc) for s in spec]
            if fn in ("elementwise_division", "scalar_divide", "inverse") and vc == "zero":
                ops[-1] = values(rng, spec[-1], "pm1")  # x/0 is not an arithmetic statement
            args = [gen.enc(o) for o in ops]
            mform = "contiguous"
            if case["rep"] % 2 == 1:
                # the same operands as strided / permuted-layout / offset views (what slicing and transposing hand over)
                pairs_ = [gen.memory_form_nd(a, rng) for a in args]
                args, mform = [p_[0] for p_ in pairs_], "+".join(p_[1] for p_ in pairs_)
                ctx.count("non_contiguous_operand_calls")
            elif case["rep"] % 4 == 2 and len(args) == 2 and ops[0].shape == ops[1].shape:
                # the very same tensor object as both operands
                args = [args[0], args[0]]
                ops = [ops[0], ops[0]]
                mform = "same-object"
                ctx.count("same_object_operand_calls")
            ctx.seen("operand_memory_forms", mform)
            before = [a.clone() for a in args]
            r = ctx.lib("cplx." + fn, f, *args, tags={"fn": fn, "memory_form": mform})
            for a, b in zip(args, before):
                if not torch.equal(a, b) and not (torch.isnan(a) & torch.isnan(b)).any():
                    ctx.violation("operand-mutated", f"cplx.{fn} modified an operand", tags={"fn": fn})
        drain(ctx, {"fn": fn, "vclass": vc})
        key = (fn, str(spec), vc)
        if not all(np.all(o == 0) for o in ops):
            ctx.mark_nontrivial(gen.model_digest("syn", {"k": np.array([hash(str(key)) % 1000])},
                                                 {str(i): o for i, o in enumerate(ops)}))
        ctx.seen("fn_shape_vclass", key)
        ctx.sample({"case": case, "operands": [np.round(o, 3).astype(str).tolist() for o in ops][:2]})
    elif t == "I":
        fn, pos = case["fn"], case["pos"]
        f = getattr(cplx, fn)
        if fn == "inner_prod":
            other = gen.enc(values(rng, (), "random"))
        elif fn == "matmul":
            other = gen.enc(values(rng, (1, 1), "random"))
        else:
            other = gen.enc(values(rng, (3,) if case["rep"] % 2 else (), "random"))
        I = cplx.I
        if fn == "matmul":
            args = [I.reshape(2, 1, 1), other] if pos == 0 else [other, I.reshape(2, 1, 1)]
        else:
            args = [I, other] if pos == 0 else [other, I]
        ctx.lib(f"cplx.{fn}(I at {pos})", f, *args)
        drain(ctx, {"fn": fn, "vclass": "float32-I"})
        ctx.seen("fn_shape_vclass", (fn, "I", pos))
        ctx.mark_nontrivial(gen.model_digest("I", {"o": other.numpy()}, None, extra=[fn, pos]))
    elif t == "out":
        shp = [(), (3,), (2, 3)][case["rep"] % 3]
        a, b = gen.enc(values(rng, shp, "random")), gen.enc(values(rng, shp, "random"))
        out = torch.full((2,) + shp, 7.0, dtype=torch.double)
        r = ctx.lib("scalar_mult(out=fresh)", cplx.scalar_mult, a, b, out=out)
        if r is not out:
            ctx.violation("out-not-returned", "scalar_mult(out=buf) did not return buf")
        want = gen.dec(a) * gen.dec(b)
        if np.abs(gen.dec(out) - want).max() > 1e-13 * (1 + np.abs(want).max()):
            ctx.violation("out-not-written", "scalar_mult(out=buf) did not write the product into buf")
        ctx.count("out_buffer_checks")
        for which, buf in (("x", a), ("y", b)):
            keep = buf.clone()
            ctx.must_raise(f"scalar_mult(out={which})", RuntimeError, cplx.scalar_mult, a, b, out=buf,
                           tags={"fn": "scalar_mult"})
            if not torch.equal(buf, keep):
                ctx.violation("aliased-out-written", f"scalar_mult(out={which}) was rejected after overwriting the operand")
        # an output buffer that is another tensor OBJECT over an operand's memory (what slicing, .data, .detach() and
        # .view() hand over) aliases that operand just as much: an error, never a wrong product
        views = [("x[:]", lambda t_: t_[:]), ("x.data", lambda t_: t_.data), ("x.detach()", lambda t_: t_.detach()),
                 ("x.view_as(x)", lambda t_: t_.view_as(t_)), ("x.reshape(shape)", lambda t_: t_.reshape(t_.shape))]
        vname, mk = views[int(rng.integers(0, len(views)))]
        for which in ("x", "y"):
            a2, b2 = a.clone(), b.clone()
            buf = mk(a2 if which == "x" else b2)
            err = None
            try:
                r2 = cplx.scalar_mult(a2, b2, out=buf)
            except Exception as e:  # noqa: BLE001
                err = e
            ctx.count("aliasing_view_out_buffers_tried")
            if err is not None:
                ctx.count("rejections_observed")
                if not (torch.equal(a2, a) and torch.equal(b2, b)):
                    ctx.violation("aliased-out-written", f"scalar_mult(out=<{vname} of {which}>) was rejected after overwriting the operand",
                                  tags={"fn": "scalar_mult", "out": "view-of-operand"})
            elif np.abs(gen.dec(r2) - want).max() > 1e-13 * (1 + np.abs(want).max()):
                ctx.violation("aliasing-out-wrong-value", f"scalar_mult(x, y, out=<{vname.replace('x', which)}>, a view over operand {which}'s memory) raised "
                              f"nothing and returned {gen.dec(r2)!r} instead of x*y = {want!r}",
                              tags={"fn": "scalar_mult", "out": "view-of-operand", "call": "scalar_mult", "alias": "view"},
                              witness={"x": a.tolist(), "y": b.tolist(), "out": vname, "operand": which})
        # partial overlap with a different start address: out's real half lies over x's imaginary half
        n_ = int(np.prod(shp)) if shp else 1
        flat = torch.zeros(3 * n_, dtype=torch.double)
        xs = flat[:2 * n_].view((2,) + shp)
        xs.copy_(a)
        err = None
        try:
            r4 = cplx.scalar_mult(xs, b, out=flat[n_:].view((2,) + shp))
        except Exception as e:  # noqa: BLE001
            err = e
        ctx.count("aliasing_view_out_buffers_tried")
        if err is not None:
            ctx.count("rejections_observed")
            if not torch.equal(xs, a):
                ctx.violation("aliased-out-written", "scalar_mult(out=<buffer partially overlapping x>) was rejected after overwriting the operand",
                              tags={"fn": "scalar_mult", "out": "partial-overlap"})
        elif np.abs(gen.dec(r4) - want).max() > 1e-13 * (1 + np.abs(want).max()):
            ctx.violation("aliasing-out-wrong-value", f"scalar_mult(x, y, out=<buffer whose real half lies over x's imaginary half>) raised nothing "
                          f"and returned {gen.dec(r4)!r} instead of x*y = {want!r}",
                          tags={"fn": "scalar_mult", "out": "partial-overlap", "call": "scalar_mult", "alias": "partial"},
                          witness={"x": a.tolist(), "y": b.tolist()})
        # an out buffer with gaps (every third element of a table) whose imaginary half lies over an operand that starts
        # beyond the buffer's first numel elements: still the operand's memory
        if len(shp) <= 1:
            n_ = int(np.prod(shp)) if shp else 1
            flat = torch.zeros(6 * n_, dtype=torch.double)
            gout = flat[0::3] if not shp else flat.view(2, 3 * n_)[:, ::3]
            xs = flat[3 * n_:5 * n_].view((2,) + shp)
            xs.copy_(a)
            err = None
            try:
                r5 = cplx.scalar_mult(xs, b, out=gout)
            except Exception as e:  # noqa: BLE001
                err = e
            ctx.count("aliasing_view_out_buffers_tried")
            if err is not None:
                ctx.count("rejections_observed")
                if not torch.equal(xs, a):
                    ctx.violation("aliased-out-written", "scalar_mult(out=<gapped buffer over x>) was rejected after overwriting the operand",
                                  tags={"fn": "scalar_mult", "out": "gapped-overlap"})
            elif np.abs(gen.dec(r5) - want).max() > 1e-13 * (1 + np.abs(want).max()):
                ctx.violation("aliasing-out-wrong-value", f"scalar_mult(x, y, out=<strided buffer whose imaginary half lies over x>) raised nothing and "
                              f"returned {gen.dec(r5)!r} instead of x*y = {want!r}",
                              tags={"fn": "scalar_mult", "out": "gapped-overlap", "call": "scalar_mult", "alias": "gapped"},
                              witness={"x": a.tolist(), "y": b.tolist()})
        # the library's own imaginary unit as an operand together with out=: the buffer is written and returned
        bufI = torch.full((2,) + shp, 7.0, dtype=torch.double)
        rI = ctx.lib("scalar_mult(x, I, out=fresh)", cplx.scalar_mult, a, cplx.I, out=bufI, tags={"fn": "scalar_mult", "operand": "I"})
        wantI = gen.dec(a) * 1j
        if rI is not bufI or np.abs(gen.dec(bufI) - wantI).max() > 1e-13 * (1 + np.abs(wantI).max()):
            ctx.violation("out-not-written", f"scalar_mult(x, cplx.I, out=buf): returned buf: {rI is bufI}; buf holds {gen.dec(bufI)!r}, x*i = {wantI!r}",
                          tags={"fn": "scalar_mult", "operand": "I"})
        ctx.count("out_buffer_checks")
        # a buffer in the same allocation that does not overlap either operand is an ordinary buffer
        big = torch.full((3, 2) + shp, 7.0, dtype=torch.double)
        big[0], big[2] = a, b
        try:
            r3 = cplx.scalar_mult(big[0], big[2], out=big[1])
            if np.abs(gen.dec(r3) - want).max() > 1e-13 * (1 + np.abs(want).max()) or not (torch.equal(big[0], a) and torch.equal(big[2], b)):
                ctx.violation("out-not-written", "scalar_mult with operands and a disjoint out buffer taken from one allocation gave a wrong product")
        except RuntimeError:
            ctx.count("disjoint_same_allocation_out_refused")  # stricter than needed, but not a wrong value
        drain(ctx, {"fn": "scalar_mult"})
        ctx.mark_nontrivial(gen.model_digest("out", {"a": a.numpy(), "b": b.numpy()}, None))
    elif t == "errors":
        v, s, m, t3 = gen.enc(values(rng, (3,), "random")), gen.enc(values(rng, (), "random")), \
            gen.enc(values(rng, (2, 2), "random")), gen.enc(values(rng, (2, 2, 2), "random"))
        ctx.must_raise("inner_prod(vector, scalar)", ValueError, cplx.inner_prod, v, s)
        ctx.must_raise("inner_prod(scalar, vector)", ValueError, cplx.inner_prod, s, v)
        ctx.must_raise("inner_prod(matrix, matrix)", ValueError, cplx.inner_prod, m, m)
        # vectors of different lengths have no inner product - also when one of them has length 1 (which an elementwise
        # formulation would silently broadcast)
        for la, lb in ((3, 1), (1, 3), (3, 4), (2, 5), (1, 2)):
            ctx.must_raise(f"inner_prod(vector({la}), vector({lb}))", (ValueError, RuntimeError), cplx.inner_prod,
                           gen.enc(values(rng, (la,), "random")), gen.enc(values(rng, (lb,), "random")))
        ctx.must_raise("outer_prod(matrix, vector)", ValueError, cplx.outer_prod, m, v)
        ctx.must_raise("outer_prod(vector, scalar)", ValueError, cplx.outer_prod, v, s)
        ctx.must_raise("outer_prod(scalar, scalar)", ValueError, cplx.outer_prod, s, s)
        ctx.must_raise("kronecker_prod(vector, matrix)", ValueError, cplx.kronecker_prod, v, m)
        ctx.must_raise("kronecker_prod(matrix, rank3)", ValueError, cplx.kronecker_prod, m, t3)
        ctx.must_raise("elementwise_division(vector, scalar)", ValueError, cplx.elementwise_division, v, s)
        ctx.must_raise("elementwise_division(matrix, vector)", ValueError, cplx.elementwise_division, m, gen.enc(values(rng, (2,), "random")))
        drain(ctx)
        ctx.mark_nontrivial("errors")
    else:
        scenario(case, ctx, rng)
    flush_counts(ctx)


def scenario(case, ctx, rng):
    """library-driven: the contracts observe the shapes the library itself uses."""
    from qucumber.observables import SWAP, NeighbourInteraction, SigmaX, SigmaY
    from qucumber.utils import unitaries

    kind = case["kind"]
    nv = int(rng.integers(2, 4))
    nh = int(rng.integers(1, 4))
    na = int(rng.integers(1, 3))
    am, ph = gen.draw_model(rng, kind, nv, nh, na, scales=gen.SCALES_SMALL)
    st = gen.make_state(kind, am, ph)
    sp = st.generate_hilbert_space()
    N = 7
    data = torch.tensor(rng.integers(0, 2, size=(N, nv)), dtype=torch.double)
    bases = gen.random_bases(rng, N, nv)
    bases[0] = "Z"  # training with bases needs at least one reference-basis row to start the negative chains from
    before = dict(contracts.REC.evals)
    if kind == "positive":
        ctx.lib("gradient", st.gradient, data)
    else:
        ctx.lib("gradient", st.gradient, data, bases)
        ctx.lib("gradient(1d)", st.gradient, data[0], "".join(bases[0]))
        for b in ("X" * nv, "YZ"[: nv] + "X" * max(0, nv - 2)):
            if kind == "complex":
                ctx.lib("rotate_psi", unitaries.rotate_psi, st, b, sp)
                ctx.lib("rotate_psi_inner_prod", unitaries.rotate_psi_inner_prod, st, b, data)
            else:
                ctx.lib("rotate_rho", unitaries.rotate_rho, st, b, sp)
                ctx.lib("rotate_rho_probs", unitaries.rotate_rho_probs, st, b, data)
    for obs in (SigmaX(), SigmaY(), NeighbourInteraction(c=1), SWAP([0])):
        ctx.lib("observable.apply", obs.apply, st, sp)
    kw = {} if kind == "positive" else {"input_bases": bases}
    ctx.lib("fit", st.fit, data, epochs=1, pos_batch_size=4, neg_batch_size=3, k=1, lr=0.01, **kw)
    n = sum(contracts.REC.evals.values()) - sum(before.values())
    ctx.count("scenario_contract_evals", n)
    drain(ctx, {"scenario": kind})
    ctx.mark_nontrivial(gen.model_digest(kind, am, ph, extra="scenario"))
    ctx.seen("scenario_kinds", kind)
