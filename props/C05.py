"""C05 - Gibbs sampling targets exactly the distribution the model reports.

Monitor 1: exact kernel assembled from the public conditional-probability
           methods vs the reference conditionals obtained from the enumerated
           joint; invariance / detailed balance w.r.t. probability/normalization
           as reported by the state.
Monitor 2: Bernoulli tap (ATen dispatch) + chain automaton while the real
           sample()/gibbs_steps runs: every draw's probability tensor must be
           the reference conditional of the current chain state; exactly k
           steps; returned tensor = last visible draw; overwrite semantics
           (L3a protected-storage sanitizer + storage identity).
Monitor 3: empirical k-step law from a fixed start vs T_ref^k, per-cell
           Hoeffding bound, total false-alarm probability <= 1e-9 per run.
"""
import math

import numpy as np
import torch

from vlib import gen, monitors, refmodel as R
from vlib.runner import np_rng

ID = "C05"
RULE = ("one case = one model (positive/complex share BinaryRBM, mixed uses PurificationRBM; nv,nh in 1..4, na in 1..3; "
        "parameter scales up to 30 incl. saturating conditionals) on which the three monitors run over every start "
        "state, k in {0,1,2,3,5}, overwrite on/off, random start. Non-trivial: every bias and weight non-zero; "
        "distinct by sha256 of parameters.")
REQUIRED = ["parameter_changes_on_sampled_state", "continuation_checks", "held_results_rechecked", "conditional_entries_compared", "kernel_rows_checked",
            "overwrite_true_checks", "overwrite_false_checks", "empirical_cells_tested", "protected_write_ops_inspected"]
ANCHOR_FILES = ["qucumber/rbm/binary_rbm.py", "qucumber/rbm/purification_rbm.py"]
REACH = [
    ("qucumber/rbm/binary_rbm.py", r"self\.sample_v_given_h\(h, out=v\)", "BinaryRBM.gibbs_steps loop"),
    ("qucumber/rbm/purification_rbm.py", r"self\.sample_v_given_ha\(h, a, out=v\)", "PurificationRBM.gibbs_steps loop"),
    ("qucumber/nn_states/neural_state.py", r"dist = torch\.distributions\.Bernoulli\(probs=0\.5\)", "sample random start"),
    ("qucumber/nn_states/neural_state.py", r"return self\.rbm_am\.gibbs_steps\(k, initial_state, overwrite=overwrite\)", "sample"),
]


def CONCLUSIVE(counters):
    """the k-step law must have been decided by the draw-level automaton (monitor 2) or, when the sampler does not draw
    through aten::bernoulli and the tap is blind, by the empirical-law monitor (monitor 3, then run on every case)"""
    if counters.get("automaton_steps_accepted", 0) == 0 and counters.get("empirical_cells_tested", 0) == 0:
        return ["k-step-law-undecided: neither the draw automaton nor the empirical-law monitor observed anything"]
    return []


ASSUMPTIONS = ["aten::bernoulli(p) draws independent Bernoulli(p) variates from the seeded torch generator",
               "statistical monitor: Hoeffding bound, union over cells and cases, total false-alarm probability <= 1e-9"]
MIN_PER_WORKER = 2
TAU = 3e-9


def cases(tier, seed):
    out = []
    reps = 1 if tier == "quick" else 120
    for kind in ("positive", "mixed", "complex"):
        for nv in range(1, 5):
            for nh in range(1, 5):
                nas = range(1, 4) if kind == "mixed" else [0]
                for na in nas:
                    if kind == "complex" and (nv + nh) % 3:
                        continue  # same RBM class as positive: a thinner slice
                    for r in range(reps):
                        out.append({"kind": kind, "nv": nv, "nh": nh, "na": na, "rep": r, "seed": seed})
    return out


def n_stat_cases(tier):
    return len([c for c in cases(tier, 0) if stat_case(c)])


def stat_case(c):
    return (c["nv"] * 7 + c["nh"] * 3 + c["na"] + c["rep"]) % 4 == 0


def lib_conditionals(ctx, rbm, mixed, nv, nh, na):
    V = torch.tensor(R.space(nv), dtype=torch.double)
    H = torch.tensor(R.space(nh), dtype=torch.double)
    ph = ctx.lib("prob_h_given_v", rbm.prob_h_given_v, V.clone())
    out = {"ph": ph}
    if mixed:
        A = torch.tensor(R.space(na), dtype=torch.double)
        out["pa"] = ctx.lib("prob_a_given_v", rbm.prob_a_given_v, V.clone())
        Hr = H.repeat_interleave(len(A), dim=0)
        At = A.repeat(len(H), 1)
        out["pv"] = ctx.lib("prob_v_given_ha", rbm.prob_v_given_ha, Hr.clone(), At.clone())
        out["lat"] = (Hr.numpy(), At.numpy())
    else:
        out["pv"] = ctx.lib("prob_v_given_h", rbm.prob_v_given_h, H.clone())
        out["lat"] = (H.numpy(), None)
    return out


def run_case(case, ctx):
    """two phases on the SAME state object: fresh parameters, then (after it has been sampled) parameters changed
    through the usual .data idioms - the sampler must follow the current parameters (histories, not only inputs)."""
    kind, nv, nh, na = case["kind"], case["nv"], case["nh"], case["na"]
    mixed = kind == "mixed"
    rng = np_rng(ID, case["seed"], kind, nv, nh, na, case["rep"])
    scales = gen.SCALES_FULL if (nv + nh) <= 5 else [0.1, 0.5, 1.0, 3.0, 10.0]
    am, ph = gen.draw_model(rng, kind, nv, nh, na if mixed else None, scales=scales)
    st = gen.make_state(kind, am, ph)
    held = []
    phase(case, ctx, rng, st, am, "fresh", held, last=False)
    am2, _ = gen.draw_model(rng, kind, nv, nh, na if mixed else None, scales=scales)
    how = ["data.copy_", "data-assign", "load_state_dict", "optimizer-step"][case["rep"] % 4 if ctx.tier != "quick" else int(rng.integers(0, 4))]
    names = gen.PUR_NAMES if mixed else gen.BIN_NAMES
    rbm = st.rbm_am
    if how == "data.copy_":
        gen.set_params(rbm, am2)
    elif how == "data-assign":
        for k_, v_ in am2.items():
            getattr(rbm, names[k_]).data = torch.tensor(np.asarray(v_), dtype=torch.double)
    elif how == "load_state_dict":
        rbm.load_state_dict({names[k_]: torch.tensor(np.asarray(v_), dtype=torch.double) for k_, v_ in am2.items()})
    else:
        opt = torch.optim.SGD(list(rbm.parameters()), lr=1.0)
        for k_, v_ in am2.items():
            p_ = getattr(rbm, names[k_])
            p_.grad = (p_.data - torch.tensor(np.asarray(v_), dtype=torch.double))
        opt.step()
        am2 = gen.get_params(rbm)
        am2 = {k_: am2[k_] for k_ in (gen.PUR_ORDER if mixed else gen.BIN_ORDER)}
    ctx.seen("parameter_change_idioms", how)
    ctx.count("parameter_changes_on_sampled_state")
    phase(case, ctx, rng, st, am2, "after-" + how, held, last=True)


def phase(case, ctx, rng, st, am, label, held, last):
    kind, nv, nh, na = case["kind"], case["nv"], case["nh"], case["na"]
    mixed = kind == "mixed"
    rbm = st.rbm_am
    V = R.space(nv)
    N = len(V)
    tags = {"state": kind, "phase": label.split("-")[0]}
    wit = {"am": gen.small_params(am), "phase": label}
    units = nh + (na if mixed else 0)

    # ------------------------------------------------------------ monitor 1
    lc = lib_conditionals(ctx, rbm, mixed, nv, nh, na)
    if mixed:
        ref_ph, ref_pa = R.pur_cond_h_given_v(am, V), R.pur_cond_a_given_v(am, V)
        ref_pv = R.pur_cond_v_given_ha(am, *lc["lat"])
        T_ref = R.pur_kernel(am)
    else:
        ref_ph, ref_pa = R.rbm_cond_h_given_v(am, V), None
        ref_pv = R.rbm_cond_v_given_h(am, lc["lat"][0])
        T_ref = R.rbm_kernel(am)
    for nm, lib, ref in (("prob_h_given_v", lc["ph"], ref_ph), ("prob_a_given_v", lc.get("pa"), ref_pa),
                         ("prob_v_given_" + ("ha" if mixed else "h"), lc["pv"], ref_pv)):
        if ref is None:
            continue
        if tuple(lib.shape) != ref.shape:
            ctx.violation("shape", f"{nm} returned shape {tuple(lib.shape)}, expected {ref.shape}", tags=tags)
            return
        l = lib.numpy()
        ctx.count("conditional_entries_compared", l.size)
        if np.any(np.abs(l - ref) > 1e-12) or l.min() < 0 or l.max() > 1:
            i = np.unravel_index(int(np.argmax(np.abs(l - ref))), l.shape)
            ctx.violation("conditional-vs-joint", f"{nm}{i}={l[i]!r} but the enumerated joint gives {ref[i]!r}",
                          tags=dict(tags, fn=nm), witness=wit)
    # 1-D forms
    v1 = torch.tensor(V[N - 1], dtype=torch.double)
    p1 = ctx.lib("prob_h_given_v(1d)", rbm.prob_h_given_v, v1.clone())
    if tuple(p1.shape) != (nh,) or np.any(np.abs(p1.numpy() - ref_ph[N - 1]) > 1e-12):
        ctx.violation("conditional-1d", "prob_h_given_v 1-D form disagrees", tags=tags)
    # the public one-layer samplers called directly, without and with a caller-supplied buffer: 0/1 draws whose unit-wise
    # frequencies over M copies of one configuration follow the exact conditional (Hoeffding, union over units and calls;
    # total false-alarm probability below 1e-9 per run)
    Ms = 3000
    eps_s = math.sqrt(math.log(2 * 1e7 / 1e-9) / (2 * Ms))  # union over at most 1e7 unit frequencies per run
    iv = int(rng.integers(0, N))
    vb = torch.tensor(np.repeat(V[iv:iv + 1], Ms, axis=0), dtype=torch.double)
    jobs = [("sample_h_given_v", (vb,), ref_ph[iv], nh)]
    if mixed:
        jobs.append(("sample_a_given_v", (vb,), ref_pa[iv], na))
        ih, ia = int(rng.integers(0, 2 ** nh)), int(rng.integers(0, 2 ** na))
        hb = torch.tensor(np.repeat(R.space(nh)[ih:ih + 1], Ms, axis=0), dtype=torch.double)
        ab = torch.tensor(np.repeat(R.space(na)[ia:ia + 1], Ms, axis=0), dtype=torch.double)
        jobs.append(("sample_v_given_ha", (hb, ab), R.pur_cond_v_given_ha(am, R.space(nh)[ih:ih + 1], R.space(na)[ia:ia + 1])[0], nv))
    else:
        ih = int(rng.integers(0, 2 ** nh))
        hb = torch.tensor(np.repeat(R.space(nh)[ih:ih + 1], Ms, axis=0), dtype=torch.double)
        jobs.append(("sample_v_given_h", (hb,), R.rbm_cond_v_given_h(am, R.space(nh)[ih:ih + 1])[0], nv))
    for fn_, args_, refp, width in jobs:
        for with_out in (False, True):
            f_ = getattr(rbm, fn_, None)
            if f_ is None:
                ctx.count("direct_samplers_unavailable")
                continue
            kw_ = {"out": torch.full((Ms, width), 7.0, dtype=torch.double)} if with_out else {}
            d_ = ctx.lib(f"{fn_}({'out=buffer' if with_out else 'no buffer'})", f_, *[a_.clone() for a_ in args_], tags=dict(tags, fn=fn_), **kw_)
            ctx.count("direct_sampler_calls")
            dn = d_.numpy()
            if dn.shape != (Ms, width) or not np.all((dn == 0) | (dn == 1)):
                ctx.violation("sampler-output", f"{fn_} returned shape {dn.shape} / values outside {{0,1}}", tags=dict(tags, fn=fn_))
                continue
            if with_out and not torch.equal(kw_["out"], d_):
                ctx.violation("sampler-output", f"{fn_}(out=buffer) did not leave the draw in the buffer", tags=dict(tags, fn=fn_))
            fr = dn.mean(axis=0)
            refp = np.asarray(refp).reshape(-1)
            if np.any(np.abs(fr - refp) > eps_s):
                u_ = int(np.argmax(np.abs(fr - refp)))
                ctx.violation("sampler-vs-conditional", f"{fn_}({'out=buffer' if with_out else 'no buffer'}): unit {u_} is on in {fr[u_]:.3f} of {Ms} "
                              f"draws, its exact conditional is {refp[u_]:.3f} (Hoeffding eps {eps_s:.3f})", tags=dict(tags, fn=fn_, buffer=with_out),
                              witness=wit)
    # assemble T from the library's conditionals
    Hs, As = lc["lat"]
    if mixed:
        plat = R.bern_prod(lc["ph"].numpy(), R.space(nh))[:, :, None] * R.bern_prod(lc["pa"].numpy(), R.space(na))[:, None, :]
        plat = plat.reshape(N, -1)
    else:
        plat = R.bern_prod(lc["ph"].numpy(), R.space(nh))
    pvis = R.bern_prod(lc["pv"].numpy(), V)  # (latent configs, N)
    T_lib = plat @ pvis
    if np.any(np.abs(T_lib - T_ref) > 1e-11):
        i = np.unravel_index(int(np.argmax(np.abs(T_lib - T_ref))), T_lib.shape)
        ctx.violation("kernel-vs-reference", f"T{i}={T_lib[i]!r} reference {T_ref[i]!r}", tags=tags, witness=wit)
    sp = torch.tensor(V, dtype=torch.double)
    pr = ctx.lib("probability", st.probability, sp).numpy()
    Z = float(ctx.lib("normalization", st.normalization, sp))
    pi = pr / Z
    tau = gen.tau_sp(nv, am) + 1e-11
    inv = pi @ T_lib
    ctx.count("kernel_rows_checked", N)
    if np.any(np.abs(inv - pi) > tau * pi + 1e-14):
        j = int(np.argmax(np.abs(inv - pi) - tau * pi))
        ctx.violation("not-invariant", f"(pi T)[{j}]={inv[j]!r} but pi[{j}]={pi[j]!r}: the reported distribution is not "
                      "stationary for the sampling kernel", tags=tags, witness=wit)
    F = pi[:, None] * T_lib
    mn = np.minimum(pi[:, None], pi[None, :])
    mx = np.maximum(pi[:, None], pi[None, :])
    if np.any(np.abs(F - F.T) > tau * mn + 1e-14 * mx):
        i = np.unravel_index(int(np.argmax(np.abs(F - F.T) - tau * mn - 1e-14 * mx)), F.shape)
        ctx.violation("detailed-balance", f"pi_v T_vv' = {F[i]!r} but pi_v' T_v'v = {F.T[i]!r} for (v,v')={i}", tags=tags, witness=wit)

    # ------------------------------------------------------------ monitor 2
    def ref_latent(vrows):
        if mixed:
            return R.pur_cond_h_given_v(am, vrows), R.pur_cond_a_given_v(am, vrows)
        return R.rbm_cond_h_given_v(am, vrows), None

    def ref_visible(h, a):
        return R.pur_cond_v_given_ha(am, h, a) if mixed else R.rbm_cond_v_given_h(am, h)

    def automaton(bern, v0, k, what):
        """returns final chain state or None (violation recorded)."""
        v = v0
        pos = 0
        for step in range(k):
            rh, ra = ref_latent(v)
            need = {"h": rh}
            if mixed:
                need["a"] = ra
            got = {}
            while len(got) < len(need):
                if pos >= len(bern):
                    ctx.violation("chain-too-few-draws", f"{what}: step {step}: expected a latent-layer draw, none recorded", tags=tags)
                    return None
                _, p, r = bern[pos]
                pos += 1
                p = p.numpy()
                rr = r.numpy()
                hit = None
                for nm, ref in need.items():
                    if nm not in got and p.shape == ref.shape and np.all(np.abs(p - ref) <= 1e-12):
                        hit = nm
                        got[nm] = rr
                        break
                if hit is None and mixed and not got and p.ndim == 2 and p.shape[-1] == rh.shape[-1] + ra.shape[-1]:
                    # hidden and auxiliary units drawn in ONE call (a fused latent layer), in either order
                    for first, second, n1 in (("h", "a", rh.shape[-1]), ("a", "h", ra.shape[-1])):
                        cat = np.concatenate([need[first], need[second]], axis=-1)
                        if np.all(np.abs(p - cat) <= 1e-12):
                            got[first], got[second] = rr[..., :n1], rr[..., n1:]
                            hit = "fused"
                            ctx.count("fused_latent_draws_accepted")
                            break
                if hit is None:
                    ctx.violation("latent-draw-not-from-conditional",
                                  f"{what}: step {step}: a draw with probabilities {np.round(p.reshape(-1)[:6], 6).tolist()} (shape "
                                  f"{p.shape}) is not p(h|v) {np.round(rh.reshape(-1)[:6], 6).tolist()}"
                                  + (f" nor p(a|v) {np.round(ra.reshape(-1)[:6], 6).tolist()} (nor both side by side)" if mixed else "")
                                  + " of the current visible state", tags=tags, witness=wit)
                    return None
            rv = ref_visible(got["h"], got.get("a"))
            if pos >= len(bern):
                ctx.violation("chain-too-few-draws", f"{what}: step {step}: no visible draw recorded", tags=tags)
                return None
            _, p, r = bern[pos]
            pos += 1
            p = p.numpy()
            if p.shape != rv.shape or np.any(np.abs(p - rv) > 1e-12):
                ctx.violation("visible-draw-not-from-conditional",
                              f"{what}: step {step}: visible draw probabilities {np.round(p.reshape(-1)[:6], 6).tolist()} are not "
                              f"p(v|h,a) {np.round(rv.reshape(-1)[:6], 6).tolist()} of the latent states just drawn", tags=tags, witness=wit)
                return None
            v = r.numpy()
            ctx.count("automaton_steps_accepted")
        if pos != len(bern):
            ctx.violation("chain-extra-draws", f"{what}: {len(bern) - pos} Bernoulli draws beyond the {k} requested steps", tags=tags)
            return None
        return v

    ks = [0, 1, 2, 3, 5]
    tap_blind = [False]
    for k in ks:
        for overwrite in (False, True):
            B = N if N <= 8 else 8
            rows = V if N <= 8 else V[rng.integers(0, N, size=B)]
            init = torch.tensor(rows, dtype=torch.double)
            if (k + case.get("rep", 0)) % 2 == 1:
                # the start state as a strided / column-major / sliced view (a column block of a data table, every other
                # row of a pool): with overwrite=True it is still the caller's memory that must hold the chain state
                init, mform = gen.memory_form(init, rng, form=["strided", "column-major", "offset-slice"][int(rng.integers(0, 3))])
                ctx.count("non_contiguous_start_states")
                ctx.seen("start_state_memory_forms", mform)
            keep = init.clone()
            mon = monitors.DispatchMonitor(tap_bernoulli=True)
            if not overwrite:
                mon.protect("initial_state", init)
            for nm, p_ in monitors.params_of(st).items():
                mon.protect("param:" + nm, p_.data)
            entry = "sample" if (k + overwrite) % 2 == 0 else "gibbs_steps"
            with mon:
                if entry == "sample":
                    res = ctx.lib("sample", st.sample, k, initial_state=init, overwrite=overwrite, tags=tags)
                else:
                    res = ctx.lib("gibbs_steps", rbm.gibbs_steps, k, init, overwrite=overwrite, tags=tags)
            ctx.count("tapped_bernoulli_draws", len(mon.bern))
            ctx.count("protected_write_ops_inspected", mon.write_ops)
            for w in mon.writes:
                ctx.violation("protected-write", f"{entry}(k={k}, overwrite={overwrite}) wrote to {w['target']} via {w['op']}",
                              tags=dict(tags, target=w["target"].split(":")[0]), witness=w)
            if not isinstance(res, torch.Tensor) or tuple(res.shape) != tuple(init.shape) or res.dtype != torch.double:
                ctx.violation("shape", f"{entry} returned {type(res).__name__} {tuple(getattr(res, 'shape', ()))} {getattr(res, 'dtype', None)}", tags=tags)
                continue
            rn = res.numpy()
            if not np.all((rn == 0) | (rn == 1)):
                ctx.violation("not-binary", f"{entry} returned values outside {{0,1}}: {np.unique(rn)[:5].tolist()}", tags=tags)
            if k > 0 and not mon.bern:
                ctx.count("tap_saw_no_draws")  # sampler no longer draws through aten::bernoulli: monitor 2 cannot observe
                tap_blind[0] = True
                final = None
            else:
                final = automaton(mon.bern, rows, k, f"{entry}(k={k}, overwrite={overwrite})")
            if final is not None and not np.array_equal(final, rn):
                ctx.violation("result-not-last-draw", f"{entry}(k={k}) did not return the last visible draw of the chain", tags=tags)
            for t_, d_, what_ in held:
                if monitors.digest(t_) != d_:
                    ctx.violation("earlier-result-clobbered", f"a tensor returned earlier by {what_} was modified by a later "
                                  f"{entry}(k={k}, overwrite={overwrite}) call", tags=tags)
                    held.clear()
                    break
            ctx.count("held_results_rechecked", len(held))
            if len(held) < 24:
                held.append((res, monitors.digest(res), f"{entry}(k={k}, overwrite={overwrite})"))
            if overwrite:
                ctx.count("overwrite_true_checks")
                if res.untyped_storage().data_ptr() != init.untyped_storage().data_ptr() or not torch.equal(init, res):
                    ctx.violation("overwrite-not-in-place", f"{entry}(k={k}, overwrite=True): the caller's tensor is not the returned chain state",
                                  tags=tags)
            else:
                ctx.count("overwrite_false_checks")
                if not torch.equal(init, keep):
                    ctx.violation("start-state-modified", f"{entry}(k={k}, overwrite=False) changed the caller's start state", tags=tags)
                if k > 0 and res.untyped_storage().data_ptr() == init.untyped_storage().data_ptr():
                    ctx.violation("start-state-aliased", f"{entry}(k={k}, overwrite=False) returned the caller's storage", tags=tags)
    # a single chain handed over as a 1-D vector: same contract (shape kept, start untouched unless overwriting, then updated
    # in place), decided by the same automaton on one row
    for overwrite in (False, True):
        k1 = int(rng.integers(1, 4))
        row = V[int(rng.integers(0, N))]
        v1d = torch.tensor(row, dtype=torch.double)
        keep1 = v1d.clone()
        mon = monitors.DispatchMonitor(tap_bernoulli=True)
        if not overwrite:
            mon.protect("initial_state", v1d)
        entry = "sample" if overwrite else "gibbs_steps"
        import warnings as _w1

        with mon, _w1.catch_warnings():
            _w1.simplefilter("ignore")
            if entry == "sample":
                r1 = ctx.lib("sample(1-D start)", st.sample, k1, initial_state=v1d, overwrite=overwrite, tags=tags)
            else:
                r1 = ctx.lib("gibbs_steps(1-D start)", rbm.gibbs_steps, k1, v1d, overwrite=overwrite, tags=tags)
        ctx.count("one_dimensional_start_checks")
        for w in mon.writes:
            ctx.violation("protected-write", f"{entry}(k={k1}, 1-D start, overwrite=False) wrote to {w['target']} via {w['op']}",
                          tags=dict(tags, target=w["target"].split(":")[0]), witness=w)
        if not isinstance(r1, torch.Tensor) or tuple(r1.shape) != (nv,):
            ctx.violation("shape", f"{entry} from a 1-D start returned shape {tuple(getattr(r1, 'shape', ()))}", tags=tags)
            continue
        if mon.bern:
            # the draws of a single chain are 1-D; the automaton works on batches of one row
            b1 = [(t_, (p_.unsqueeze(0) if p_.dim() == 1 else p_), (r_.unsqueeze(0) if r_.dim() == 1 else r_)) for t_, p_, r_ in mon.bern]
            fin = automaton(b1, row[None, :], k1, f"{entry}(k={k1}, 1-D start, overwrite={overwrite})")
            if fin is not None and not np.array_equal(fin.reshape(-1), r1.numpy().reshape(-1)):
                ctx.violation("result-not-last-draw", f"{entry}(k={k1}, 1-D start) did not return the last visible draw of the chain", tags=tags)
        if overwrite:
            if r1.untyped_storage().data_ptr() != v1d.untyped_storage().data_ptr() or not torch.equal(v1d, r1):
                ctx.violation("overwrite-not-in-place", f"{entry}(1-D start, overwrite=True): the caller's vector is not the returned chain state", tags=tags)
        else:
            if not torch.equal(v1d, keep1):
                ctx.violation("start-state-modified", f"{entry}(k={k1}, overwrite=False) changed the caller's 1-D start vector", tags=tags)
            if r1.untyped_storage().data_ptr() == v1d.untyped_storage().data_ptr():
                ctx.violation("start-state-aliased", f"{entry}(k={k1}, overwrite=False) returned the caller's 1-D vector's storage", tags=tags)
    # chains continued across calls without overwriting: the earlier sample must survive
    s0 = torch.tensor(V[rng.integers(0, N, size=6)], dtype=torch.double)
    s1 = ctx.lib("sample", st.sample, 2, initial_state=s0, tags=tags)
    d1 = monitors.digest(s1)
    s2 = ctx.lib("sample(continued, overwrite=False)", st.sample, 1, initial_state=s1, overwrite=False, tags=tags)
    s3 = ctx.lib("sample(same shape again)", st.sample, 1, initial_state=s0, tags=tags)
    ctx.count("continuation_checks")
    if monitors.digest(s1) != d1:
        ctx.violation("start-state-modified", "continuing a chain with overwrite=False modified the sample it was started from", tags=tags)
    if s2.untyped_storage().data_ptr() == s1.untyped_storage().data_ptr() or s3.untyped_storage().data_ptr() in (
            s1.untyped_storage().data_ptr(), s2.untyped_storage().data_ptr()):
        ctx.violation("result-aliased", "two non-overwriting sampling calls returned tensors that share storage", tags=tags)
    # random start: the start state the library chose is learnt at the boundary of rbm_am.gibbs_steps (L1 recorder on the
    # instance), never guessed from the draws (a constant-probability latent draw is indistinguishable from a start draw).
    # The statement fixes the law *from any start state*, not the distribution of the library-chosen start.
    mon = monitors.DispatchMonitor(tap_bernoulli=True)
    ns = 5
    glog = []
    orig_gs = rbm.gibbs_steps

    def gs_rec(*a_, **k_):
        init_ = a_[1] if len(a_) > 1 else k_.get("initial_state")
        glog.append((len(mon.bern), init_.detach().clone()))
        return orig_gs(*a_, **k_)

    object.__setattr__(rbm, "gibbs_steps", gs_rec)
    try:
        with mon:
            res = ctx.lib("sample(random start)", st.sample, 2, num_samples=ns, tags=tags)
    finally:
        object.__delattr__(rbm, "gibbs_steps")
    ctx.count("tapped_bernoulli_draws", len(mon.bern))
    if tuple(res.shape) != (ns, nv):
        ctx.violation("shape", f"sample(k, num_samples={ns}) returned shape {tuple(res.shape)}", tags=tags)
    else:
        rn = res.numpy()
        if not np.all((rn == 0) | (rn == 1)):
            ctx.violation("not-binary", "sample(random start) returned values outside {0,1}", tags=tags)
        if glog and tuple(glog[0][1].shape) == (ns, nv) and len(mon.bern) > glog[0][0]:
            n0, v0_ = glog[0]
            s0 = v0_.numpy().astype(float)
            if not np.all((s0 == 0) | (s0 == 1)):
                ctx.violation("not-binary", "sample(random start) started its chains from a non-binary state", tags=tags)
            else:
                ctx.count("random_start_runs_checked")
                final = automaton(mon.bern[n0:], s0, 2, "sample(random start)")
                if final is not None and not np.array_equal(final, rn):
                    ctx.violation("result-not-last-draw", "sample(random start) did not return the last visible draw", tags=tags)
        else:
            ctx.count("random_start_not_observable")

    # ------------------------------------------------------------ monitor 3
    if last and (stat_case(case) or tap_blind[0]):
        M = 20000 if ctx.tier == "quick" else 200000
        ncases = max(1, n_stat_cases(ctx.tier)) * 3
        import qucumber

        qucumber.set_random_seed(int(rng.integers(1, 2 ** 31 - 1)), cpu=True, gpu=False, quiet=True)
        for k, v0i, cont in ((1, int(rng.integers(0, N)), False), (3, int(rng.integers(0, N)), False),
                             (2, int(rng.integers(0, N)), True)):
            cells = N
            eps = math.sqrt(math.log(2 * cells * ncases / 1e-9) / (2 * M))
            if v0i is None:
                out = ctx.lib("sample", st.sample, k, num_samples=M, tags=tags)
                law = (np.full(N, 1.0 / N) @ np.linalg.matrix_power(T_ref, k))
                what = f"sample(k={k}, num_samples={M}) from the uniform random start"
            else:
                init = torch.tensor(np.repeat(V[v0i:v0i + 1], M, axis=0), dtype=torch.double)
                out = ctx.lib("sample", st.sample, k, initial_state=init, tags=tags)
                kk = k
                if cont:
                    out = ctx.lib("sample(continued)", st.sample, 1, initial_state=out, overwrite=True, tags=tags)
                    kk = k + 1
                law = np.linalg.matrix_power(T_ref, kk)[v0i]
                what = f"sample(k={kk}{' across two calls' if cont else ''}) from start state {V[v0i].astype(int).tolist()}"
            idx = (out.numpy() @ (2 ** np.arange(nv - 1, -1, -1))).astype(int)
            freq = np.bincount(idx, minlength=N) / len(idx)
            ctx.count("empirical_cells_tested", N)
            ctx.count("empirical_samples_drawn", len(idx))
            if np.any(np.abs(freq - law) > eps):
                j = int(np.argmax(np.abs(freq - law)))
                ctx.violation("empirical-law", f"{what}: frequency of state {j} is {freq[j]:.4f}, kernel^k gives {law[j]:.4f} "
                              f"(Hoeffding eps {eps:.4f}, M={len(idx)})", tags=tags, witness=wit)
    if last:
        # two successive calls from the same start use fresh noise: under the k-step law the chance that BOTH calls return
        # the very same 256 rows is c^256 with c = sum_v T^k(v0,v)^2; only judged when that is below 1e-12
        v0i = int(rng.integers(0, N))
        law1 = T_ref[v0i]
        c_same = float(np.sum(law1 ** 2))
        if 256 * math.log(max(c_same, 1e-300)) < math.log(1e-12):
            init = torch.tensor(np.repeat(V[v0i:v0i + 1], 256, axis=0), dtype=torch.double)
            ra = ctx.lib("sample", st.sample, 1, initial_state=init, tags=tags)
            rb = ctx.lib("sample(again, same start)", st.sample, 1, initial_state=init, tags=tags)
            ctx.count("successive_call_pairs_compared")
            if torch.equal(ra, rb):
                ctx.violation("successive-calls-replay-noise", f"two successive sample(1) calls from start state {V[v0i].astype(int).tolist()} "
                              f"returned the same 256 rows (probability {c_same:.3f}^256 under the kernel): the second call replays the "
                              "first call's noise, so chains continued across calls do not follow kernel^(k1+k2)", tags=tags, witness=wit)
    if gen.all_nonzero(am):
        ctx.mark_nontrivial(gen.model_digest(kind, am, None))
    ctx.seen("architectures", (kind, nv, nh, na))
    sat = float(np.mean((lc["ph"].numpy() < 1e-12) | (lc["ph"].numpy() > 1 - 1e-12)))
    ctx.seen("saturated_hidden_fraction_decile", int(sat * 10))
    ctx.sample({"case": case, "am": gen.small_params(am), "pi": np.round(pi, 5).tolist()[:8]})
