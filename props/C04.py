"""C04 - basis rotations equal the tensor-product unitary they denote.

L2 postconditions on rotate_psi / rotate_rho / rotate_psi_inner_prod /
rotate_rho_probs (vlib.contracts.install_unitaries) compare every call - those
made by this workload and those the library itself makes from gradient / NLL /
KL - with the dense Kronecker product.  Plus: default dictionary eigen-equations,
physical-state monitors, input-immutability digests.
"""
import itertools

import numpy as np
import torch

from vlib import contracts, gen, monitors, refmodel as R
from vlib.runner import np_rng

ID = "C04"
RULE = ("one case = one basis string (all 3^n strings over {X,Y,Z} for n<=4 enumerated; sampled strings for n=5..7; "
        "user dictionaries with Haar-random and structured (Hermitian-complex, real, diagonal, anti-Hermitian, symmetric) 2x2 unitaries) exercised on positive/complex/mixed model states and on "
        "explicit complex psi / Hermitian rho (PSD, indefinite, real symmetric) with several outcome batches. "
        "Non-trivial: string is not all-Z and not a single repeated letter, explicit inputs have non-zero imaginary "
        "part; distinct by (n, string, dictionary digest).")
REQUIRED = ["second_dictionary_same_letters", "contract_evals.unitaries.rotate_psi", "contract_evals.unitaries.rotate_rho",
            "contract_evals.unitaries.rotate_psi_inner_prod", "contract_evals.unitaries.rotate_rho_probs",
            "explicit_rho_calls", "explicit_psi_calls", "dictionary_checks", "driven_contract_evals",
            "physical_state_checks"]
ANCHOR_FILES = ["qucumber/utils/unitaries.py"]
REACH = [
    ("qucumber/utils/unitaries.py", r"psi = nn_state\.psi\(v\)\.detach\(\)", "rotate_psi_inner_prod model path"),
    ("qucumber/utils/unitaries.py", r"psi = psi\[:, idx\]", "rotate_psi_inner_prod explicit path"),
    ("qucumber/utils/unitaries.py", r"rho = nn_state\.rho\(v\)\.detach\(\)", "rotate_rho_probs model path"),
    ("qucumber/utils/unitaries.py", r"rho = rho\[:, idx", "rotate_rho_probs explicit path"),
    ("qucumber/utils/unitaries.py", r"Ut = np\.ones\(v\.shape\[:-1\]", "sites.size == 0 branch"),
    ("qucumber/utils/unitaries.py", r"y\[:, slc, \.\.\.\] = cplx\.matmul", "_kron_mult sweep"),
]
EXHAUSTIVE_NOTE = "all 3^n basis strings over {X,Y,Z} for n = 1..4 (120 strings) are enumerated in both tiers"
ASSUMPTIONS = ["numpy kron / matmul in complex128 is the definition of the tensor-product unitary",
               "non-Hermitian explicit rho is not in the verdict-bearing class (DESIGN C04)"]
MIN_PER_WORKER = 4


def cases(tier, seed):
    out = [{"t": "dict", "seed": seed}]
    for n in range(1, 5):
        for b in itertools.product("XYZ", repeat=n):
            out.append({"t": "string", "n": n, "basis": "".join(b), "seed": seed, "rep": 0})
    rng = np_rng(ID, seed, "sampled")
    ns = 12 if tier == "quick" else 1500
    for i in range(ns):
        n = int(rng.integers(5, 8))
        out.append({"t": "string", "n": n, "basis": "".join(rng.choice(list("XYZ"), size=n)), "seed": seed, "rep": i})
    # beyond eight sites (indices above 255: a narrower integer type in an index computation shows only here)
    for i, n in enumerate((9, 10, 9) if tier == "quick" else (9, 10, 9, 11, 10, 9, 12, 9, 10)):
        out.append({"t": "string", "n": n, "basis": "".join(rng.choice(list("XYZ"), size=n, p=[0.25, 0.25, 0.5])), "seed": seed, "rep": 1000 + i})
    nu = 36 if tier == "quick" else 2500
    for i in range(nu):
        out.append({"t": "user", "n": int(rng.integers(1, 5)), "rep": i, "seed": seed})
    nd = 9 if tier == "quick" else 1200
    for i in range(nd):
        out.append({"t": "driven", "kind": ["complex", "mixed"][i % 2], "rep": i, "seed": seed})
    if tier == "thorough":
        for rep in range(1, 30):
            for n in range(1, 5):
                for b in itertools.product("XYZ", repeat=n):
                    out.append({"t": "string", "n": n, "basis": "".join(b), "seed": seed, "rep": rep})
    return out


def setup_worker(ctx):
    from qucumber.utils import unitaries

    mods = []
    try:
        from qucumber.utils import training_statistics as ts
        mods.append(ts)
    except Exception as e:  # noqa: BLE001
        ctx.diag(f"training_statistics not importable: {e}")
    contracts.install_unitaries(unitaries, rebind_modules=mods)


def drain(ctx, extra=None):
    for al in contracts.REC.drain():
        if al["witness"].get("harness"):
            raise RuntimeError("contract oracle failed: " + al["msg"])
        tags = {"contract": al["contract"]}
        tags.update({k: v for k, v in al["witness"].items() if k in ("path", "nonreal_unitary")})
        tags.update(extra or {})
        ctx.violation("contract:" + al["contract"], al["msg"], tags=tags, witness={"stack": al["stack"]})


def flush(ctx):
    for k, v in contracts.REC.evals.items():
        ctx.count("contract_evals." + k, v)
    contracts.REC.evals.clear()
    for s in contracts.REC.shapes:
        ctx.seen("paths_and_strings", s)
    contracts.REC.shapes.clear()


def herm(rng, N, cls):
    a = rng.normal(size=(N, N)) + 1j * rng.normal(size=(N, N))
    if cls == "psd":
        return a @ a.conj().T
    if cls == "indefinite":
        return a + a.conj().T
    b = rng.normal(size=(N, N))
    return (b + b.T).astype(complex)


def batches(rng, n):
    V = R.space(n)
    N = len(V)
    out = [V[rng.integers(0, N, size=5)], V[rng.permutation(N)][: min(N, 16)], V[rng.integers(0, N, size=1)]]
    return [torch.tensor(b, dtype=torch.double) for b in out]


def check_dict(ctx):
    from qucumber.utils import unitaries

    d = ctx.lib("create_dict", unitaries.create_dict)
    dd = {k: gen.dec(v) for k, v in d.items()}
    ctx.count("dictionary_checks")
    if set(dd) != {"X", "Y", "Z"}:
        ctx.violation("dictionary-keys", f"default dictionary keys {sorted(dd)}")
        return
    if not np.array_equal(dd["Z"], np.eye(2)):
        ctx.violation("dictionary-Z", f"Z maps to {dd['Z'].tolist()} not the identity")
    for name, P in (("X", R.SX), ("Y", R.SY)):
        U = dd[name]
        if np.abs(U @ U.conj().T - np.eye(2)).max() > 1e-15 * 4:
            ctx.violation("dictionary-not-unitary", f"{name} not unitary: {U.tolist()}")
        for row, ev in ((0, +1), (1, -1)):
            ket = U[row].conj()  # the row is the bra
            if np.abs(P @ ket - ev * ket).max() > 1e-15 * 4 or abs(np.linalg.norm(ket) - 1) > 1e-15 * 4:
                ctx.violation("dictionary-eigenvector", f"row {row} of {name} is not the {ev:+d} eigenvector of Pauli {name}: {U[row].tolist()}",
                              tags={"letter": name})
    # user additions / overrides, no aliasing of the caller's tensor
    t = gen.enc(gen.haar_2x2(np_rng(ID, "dict")))
    keep = t.clone()
    d2 = ctx.lib("create_dict(A=..)", unitaries.create_dict, A=t, X=t.numpy().tolist())
    if not (torch.equal(d2["A"], keep) and torch.allclose(d2["X"], keep) and torch.equal(d2["Y"], d["Y"])):
        ctx.violation("dictionary-user-entries", "create_dict(**kwargs) did not store the given matrices")
    d2["A"].add_(1.0)
    if not torch.equal(t, keep):
        ctx.violation("dictionary-aliases-input", "create_dict stores the caller's tensor by reference")
    ctx.mark_nontrivial("dict")


def exercise(ctx, rng, n, basis, udict_t, states_by_kind, tags, pass_unitaries=False):
    from qucumber.utils import unitaries

    sp = torch.tensor(R.space(n), dtype=torch.double)
    N = 2 ** n
    kw = {"unitaries": udict_t} if pass_unitaries else {}
    # the basis may be handed over as a string, a list of letters or a numpy row of letters (what NLL / gradient pass on)
    form = int(rng.integers(0, 3))
    basis = [basis, list(basis), np.array(list(basis))][form]
    ctx.seen("basis_argument_forms", ["str", "list", "ndarray"][form])
    for kind, st in states_by_kind.items():
        bl = batches(rng, n)
        if kind != "mixed":
            r = ctx.lib("rotate_psi", unitaries.rotate_psi, st, basis, sp, **kw)
            Z = float(st.normalization(sp))
            p = np.abs(gen.dec(r)) ** 2
            ctx.count("physical_state_checks")
            if p.min() < -1e-12 * Z or abs(p.sum() - Z) > 1e-10 * Z:
                ctx.violation("rotated-probabilities-unphysical", f"{kind} basis {basis}: min {p.min():.3e} sum {p.sum()!r} Z {Z!r}", tags=tags)
            # explicit psi
            z = rng.normal(size=N) + 1j * rng.normal(size=N)
            zt = gen.enc(z)
            keep = zt.clone()
            ctx.lib("rotate_psi(psi=)", unitaries.rotate_psi, st, basis, sp, psi=zt, **kw)
            ctx.count("explicit_psi_calls")
            for b in bl:
                bk = b.clone()
                r1 = ctx.lib("rotate_psi_inner_prod", unitaries.rotate_psi_inner_prod, st, basis, b, **kw)
                r2 = ctx.lib("rotate_psi_inner_prod(extras)", unitaries.rotate_psi_inner_prod, st, basis, b,
                             include_extras=True, **kw)
                if not (isinstance(r2, tuple) and len(r2) == 3 and torch.allclose(r2[0], r1, rtol=1e-13, atol=0)):
                    ctx.violation("extras-disagree", f"include_extras changes the returned amplitudes (basis {basis})", tags=tags)
                ctx.lib("rotate_psi_inner_prod(psi=)", unitaries.rotate_psi_inner_prod, st, basis, b, psi=zt, **kw)
                ctx.count("explicit_psi_calls")
                if not torch.equal(b, bk):
                    ctx.violation("input-mutated", "rotate_psi_inner_prod modified the outcome batch", tags=tags)
            if not torch.equal(zt, keep):
                ctx.violation("input-mutated", "explicit psi was modified", tags=tags)
        else:
            r = ctx.lib("rotate_rho", unitaries.rotate_rho, st, basis, sp, **kw)
            Z = float(st.normalization(sp))
            pr = ctx.lib("rotate_rho_probs(space)", unitaries.rotate_rho_probs, st, basis, sp, **kw).numpy()
            ctx.count("physical_state_checks")
            if pr.min() < -1e-12 * Z or abs(pr.sum() - Z) > 1e-10 * Z:
                ctx.violation("rotated-probabilities-unphysical", f"mixed basis {basis}: min {pr.min():.3e} sum {pr.sum()!r} Z {Z!r}", tags=tags)
            for cls in ("psd", "indefinite", "real_symmetric"):
                m = herm(rng, N, cls)
                mt = gen.enc(m)
                keep = mt.clone()
                ctx.lib("rotate_rho(rho=)", unitaries.rotate_rho, st, basis, sp, rho=mt, **kw)
                for b in bl:
                    bk = b.clone()
                    ctx.lib("rotate_rho_probs(rho=)", unitaries.rotate_rho_probs, st, basis, b, rho=mt, **kw)
                    ctx.count("explicit_rho_calls")
                    if not torch.equal(b, bk):
                        ctx.violation("input-mutated", "rotate_rho_probs modified the outcome batch", tags=tags)
                if not torch.equal(mt, keep):
                    ctx.violation("input-mutated", "explicit rho was modified", tags=tags)
                ctx.seen("explicit_rho_classes", cls)
            for b in bl:
                r1 = ctx.lib("rotate_rho_probs", unitaries.rotate_rho_probs, st, basis, b, **kw)
                r2 = ctx.lib("rotate_rho_probs(extras)", unitaries.rotate_rho_probs, st, basis, b, include_extras=True, **kw)
                if not (isinstance(r2, tuple) and len(r2) == 3 and torch.allclose(r2[0], r1, rtol=1e-13, atol=1e-300)):
                    ctx.violation("extras-disagree", f"include_extras changes the returned probabilities (basis {basis})", tags=tags)
        drain(ctx, tags)


def make_states(rng, n, udict_t=None, kinds=("positive", "complex", "mixed")):
    out = {}
    for kind in kinds:
        if kind == "mixed" and n > 6:
            continue
        nh = int(rng.integers(1, 4))
        na = int(rng.integers(1, 3))
        am, ph = gen.draw_model(rng, kind, n, nh, na, scales=gen.SCALES_MODERATE)
        st = gen.make_state(kind, am, ph, unitary_dict=None if kind == "positive" else udict_t)
        if kind == "positive" and udict_t is not None:
            continue  # PositiveWaveFunction has no dictionary; rotations need unitaries= (covered separately)
        out[kind] = st
    return out


def run_case(case, ctx):
    t = case["t"]
    rng = np_rng(ID, case["seed"], *[case.get(k) for k in ("t", "n", "basis", "rep", "kind")])
    if t == "dict":
        check_dict(ctx)
    elif t == "string":
        from qucumber.utils import unitaries

        n, basis = case["n"], case["basis"]
        sts = make_states(rng, n)
        if "positive" in sts:
            # a positive state carries no dictionary: pass the default one explicitly
            sts_pos = {"positive": sts.pop("positive")}
            exercise(ctx, rng, n, basis, unitaries.create_dict(), sts_pos, {"string": basis}, pass_unitaries=True)
        exercise(ctx, rng, n, basis, None, sts, {"string": basis})
        if len(set(basis)) > 1:
            ctx.mark_nontrivial(f"{n}:{basis}:{case['rep']}")
        ctx.seen("strings", basis)
        ctx.seen("has_Y", "Y" in basis)
        ctx.sample({"case": case})
    elif t == "user":
        n = case["n"]
        letters = list("ABH")[: int(rng.integers(1, 4))]
        # user unitaries from structural classes as well as generic ones (Hermitian with complex entries, real, diagonal,
        # anti-Hermitian, complex symmetric ...): a shortcut keyed on such a structure is invisible to Haar-random matrices
        ud = {}
        for li, l in enumerate(letters):
            # classes are walked systematically (rep, letter position), not drawn: every quick run sees every class
            ucls = gen.UNITARY_CLASSES[(case["rep"] // 2 + 3 * li) % len(gen.UNITARY_CLASSES)]
            ud[l], ucls = gen.structured_2x2(rng, ucls) if case["rep"] % 2 == 0 else (gen.haar_2x2(rng), "haar")
            ctx.seen("user_unitary_classes", ucls)
        if rng.random() < 0.5:
            ud["X"] = gen.structured_2x2(rng)[0] if case["rep"] % 2 == 0 else gen.haar_2x2(rng)
        from qucumber.utils import unitaries

        # given as double tensors / float64 arrays / nested lists; afterwards the caller re-uses its own objects as scratch
        # memory: the dictionary must hold what was handed over at the time
        given = {k: [gen.enc(v), gen.enc(v).numpy().copy(), gen.enc(v).tolist()][(case["rep"] + j_) % 3] for j_, (k, v) in enumerate(ud.items())}
        udict_t = unitaries.create_dict(**given)
        for g_ in given.values():
            if isinstance(g_, torch.Tensor):
                g_.fill_(9.0)
            elif isinstance(g_, np.ndarray):
                g_[...] = 9.0
        ctx.count("user_unitaries_scribbled_after_handing_over")
        alphabet = sorted(udict_t)
        basis = "".join(rng.choice(alphabet, size=n))
        if not any(c in ud for c in basis):
            basis = letters[0] + basis[1:]
        sts = make_states(rng, n, udict_t=udict_t, kinds=("complex", "mixed"))
        exercise(ctx, rng, n, basis, udict_t, sts, {"string": basis, "user_dict": True})
        # the same through the unitaries= argument on a state that holds the default dictionary
        sts2 = make_states(rng, n, kinds=("complex", "mixed"))
        exercise(ctx, rng, n, basis, udict_t, sts2, {"string": basis, "user_dict": True}, pass_unitaries=True)
        # history: a SECOND dictionary in the same process re-using the same letters with different matrices
        # (and, when a default letter is overridden, a basis that contains it): results must follow the dictionary given
        ud_b = {l: (gen.structured_2x2(rng)[0] if case["rep"] % 4 == 1 else gen.haar_2x2(rng)) for l in ud}
        udict_b = unitaries.create_dict(**{k: gen.enc(v) for k, v in ud_b.items()})
        basis_b = basis
        if "X" in ud_b and "X" not in basis_b:
            basis_b = "X" + basis_b[1:]
        sts3 = make_states(rng, n, udict_t=udict_b, kinds=("complex", "mixed"))
        exercise(ctx, rng, n, basis_b, udict_b, sts3, {"string": basis_b, "user_dict": True, "second_dictionary": True})
        exercise(ctx, rng, n, basis_b, udict_b, sts2, {"string": basis_b, "user_dict": True, "second_dictionary": True}, pass_unitaries=True)
        ctx.count("second_dictionary_same_letters")
        ctx.mark_nontrivial("user:" + monitors.digest([basis, {k: v for k, v in ud.items()}]))
        ctx.seen("user_dictionary_sizes", len(ud))
    else:
        driven(case, ctx, rng)
    flush(ctx)


def driven(case, ctx, rng):
    """library-driven: the contracts observe the calls made by gradient / NLL / KL."""
    kind = case["kind"]
    n = int(rng.integers(1, 4))
    am, ph = gen.draw_model(rng, kind, n, int(rng.integers(1, 4)), int(rng.integers(1, 3)), scales=gen.SCALES_SMALL)
    st = gen.make_state(kind, am, ph)
    N = 6
    data = torch.tensor(rng.integers(0, 2, size=(N, n)), dtype=torch.double)
    bases = gen.random_bases(rng, N, n, p_z=0.2)
    before = sum(contracts.REC.evals.values())
    try:
        from qucumber.utils import training_statistics as ts
    except Exception:  # noqa: BLE001
        ts = None
    if kind != "positive":
        ctx.lib("gradient", st.gradient, data, bases)
    if ts is not None:
        sp = st.generate_hilbert_space()
        blist = sorted({"".join(b) for b in bases})
        try:
            if kind == "mixed":
                tgt = herm(rng, 2 ** n, "psd")
                tgt = gen.enc(tgt / np.trace(tgt).real)
                ts.KL(st, tgt, space=sp, bases=blist)
            else:
                z = rng.normal(size=2 ** n) + 1j * rng.normal(size=2 ** n)
                ts.KL(st, gen.enc(z / np.linalg.norm(z)), space=sp, bases=blist)
            ts.NLL(st, data, space=sp, sample_bases=bases)
        except Exception as e:  # noqa: BLE001  the metrics' own failures belong to C10
            ctx.diag(f"metric raised in driven stage (owned by C10): {type(e).__name__}: {e}")
    ctx.count("driven_contract_evals", sum(contracts.REC.evals.values()) - before)
    drain(ctx, {"driven": kind})
    ctx.mark_nontrivial(gen.model_digest(kind, am, ph, extra="driven"))
