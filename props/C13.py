"""C13 - streaming observable statistics equal the statistics of all drawn samples.

Events: k / initial_state identity / returned chain states (cloned) of every
state.sample call made by ObservableBase.statistics / System.statistics (public
sample() wrapped on the instance); the returned dictionaries; the user's
initial_state before/after.  Oracle: one-pass numpy statistics over the
concatenation of obs.apply(chain states) + schedule rules; the pairwise-merge
routine is additionally driven on every prefix/suffix split of small datasets.
"""
import itertools
import math

import numpy as np
import torch

from vlib import gen, monitors, refmodel as R
from vlib.runner import np_rng

ID = "C13"
RULE = ("one 'stats' case = one call of Observable.statistics / System.statistics with (num_samples in 1..25, num_chains in "
        "{0,1,2,3,5,7,30}, burn_in, steps in 0..4, built-in or composite observable(s), optional user chains with overwrite "
        "on/off); one 'merge' case = every prefix/suffix split and random multi-way chunkings of a dataset of length <= 8 "
        "from an adversarial value class. Non-trivial: >= 2 draws and observable values not all equal; distinct by the "
        "(num_samples, num_chains, burn_in, steps, observable set, overwrite) tuple + model digest.")
REQUIRED = ["saturated_states", "statistics_calls", "system_calls", "sample_calls_recorded", "dict_fields_compared", "merge_splits_checked",
            "user_chain_overwrite_true", "user_chain_overwrite_false", "single_chain_runs", "multi_draw_runs"]
ANCHOR_FILES = ["qucumber/observables/observable.py", "qucumber/observables/system.py", "qucumber/observables/utils.py"]
REACH = [
    ("qucumber/observables/utils.py", r"new_mean = \(\(avg_a \* len_a\)", "_update_statistics"),
    ("qucumber/observables/observable.py", r"sample_stats = self\.statistics_from_samples\(nn_state, chains\)", "ObservableBase.statistics loop"),
    ("qucumber/observables/system.py", r"obs_stats = obs\.statistics_from_samples\(nn_state, chains\)", "System.statistics loop"),
    ("qucumber/observables/observable.py", r"chains = initial_state if overwrite else initial_state\.clone\(\)", "user chains branch"),
]
ASSUMPTIONS = ["numpy mean / var(ddof=1) over the concatenation is the definition of one-pass statistics",
               "a single drawn sample has undefined (NaN) variance"]
MIN_PER_WORKER = 8
NC = [0, 1, 2, 3, 5, 7, 30]


def cases(tier, seed):
    out = []
    n = 260 if tier == "quick" else 40000
    for i in range(n):
        out.append({"t": "stats", "rep": i, "seed": seed})
    classes = ["generic", "constant", "huge_offset", "pm1", "tiny"]
    lens = range(1, 9)
    reps = 1 if tier == "quick" else 150
    for cls in classes:
        for L in lens:
            for r in range(reps):
                out.append({"t": "merge", "cls": cls, "L": L, "rep": r, "seed": seed})
    return out


def near(a, b, scale, rel):
    if a is None or b is None:
        return False
    a, b = float(a), float(b)
    if math.isnan(b):
        return math.isnan(a)
    if math.isnan(a):
        return False
    return abs(a - b) <= rel * scale + 1e-300


def one_pass(x):
    x = np.asarray(x, dtype=float)
    n = len(x)
    m = float(np.mean(x))
    v = float(np.var(x, ddof=1)) if n > 1 else float("nan")
    return m, v, n


def run_merge(case, ctx):
    from qucumber.observables import utils as outils

    fn = getattr(outils, "_update_statistics", None)
    if fn is None:
        ctx.count("merge_routine_not_reachable")
        return
    rng = np_rng(ID, case["seed"], "merge", case["cls"], case["L"], case["rep"])
    L, cls = case["L"], case["cls"]
    if cls == "constant":
        x = np.full(L, float(rng.normal()))
    elif cls == "huge_offset":
        x = 1e8 + rng.normal(size=L) * 1e-1
    elif cls == "pm1":
        x = rng.choice([-1.0, 1.0], size=L)
    elif cls == "tiny":
        x = rng.normal(size=L) * 1e-9
    else:
        x = rng.normal(size=L) * 3 + 1
    rel = 1e-6 if cls == "huge_offset" else 1e-9

    def chunk_stats(c):
        m, v, n = one_pass(c)
        return m, v, n

    def merged(chunks):
        mean, var, n = 0.0, 0.0, 0
        for c in chunks:
            cm, cv, cn = chunk_stats(c)
            mean, var, n = fn(mean, var, n, cm, cv, cn)
        return mean, var, n

    splits = [[x[:k], x[k:]] for k in range(1, L)] if L > 1 else [[x]]
    for _ in range(3):
        if L >= 3:
            cuts = sorted(rng.choice(np.arange(1, L), size=int(rng.integers(1, L)), replace=False))
            splits.append(np.split(x, cuts))
    splits.append([x[i:i + 1] for i in range(L)])  # all single-element chunks
    wm, wv, wn = one_pass(x)
    sd = 0.0 if math.isnan(wv) else math.sqrt(max(wv, 0.0))
    scale = max(abs(wm), sd, 1e-300)
    for chunks in splits:
        ctx.count("merge_splits_checked")
        lens = [len(c) for c in chunks]
        try:
            gm, gv, gn = fn.__call__(0.0, 0.0, 0, *chunk_stats(chunks[0])) if len(chunks) == 1 else merged(chunks)
        except Exception as e:  # noqa: BLE001
            ctx.violation("merge-exception", f"merge of chunks of lengths {lens} raised {type(e).__name__}: {e}",
                          tags={"exc": type(e).__name__, "single_element_chunk": 1 in lens, "total_one": L == 1})
            continue
        okm = near(gm, wm, scale, rel)
        okv = near(gv, wv, wv + 1e-3 * abs(wm) * sd + 1e-18 * wm * wm + 1e-290, 1e-9) if not math.isnan(wv) else True
        if gn != wn or not okm or not okv:
            ctx.violation("merge-mismatch", f"merging chunks of lengths {lens} ({cls}) gives (mean, var, n) = ({gm!r}, {gv!r}, {gn!r}); "
                          f"one pass over the concatenation gives ({wm!r}, {wv!r}, {wn!r})",
                          tags={"single_element_chunk": 1 in lens, "total_one": L == 1, "vclass": cls})
    if L >= 2 and len(set(x.tolist())) > 1:
        ctx.mark_nontrivial(monitors.digest(["merge", x]))
    ctx.seen("merge_classes", cls)


def make_obs(rng, nv, which):
    from qucumber.observables import SWAP, NeighbourInteraction, ObservableBase, SigmaX, SigmaY, SigmaZ

    class Occupation(ObservableBase):
        """user-defined leaf: the occupation of one site, returned the cheapest way - as a VIEW of the sample batch"""

        def __init__(self, site):
            self.site = site
            self.name = self.symbol = f"n{site}"

        def apply(self, nn_state, samples):
            return samples[:, self.site]

    pool = {
        "occupation": lambda: Occupation(0),
        "occ-sum": lambda: Occupation(0) + Occupation(nv - 1),
        "occ-scaled": lambda: 2 * Occupation(nv - 1) - 1,
        "occ-offset": lambda: Occupation(0) + 1.0,
        "occ-neg": lambda: -Occupation(0),
        "SigmaZ": lambda: SigmaZ(), "SigmaX": lambda: SigmaX(), "SigmaY": lambda: SigmaY(),
        "absZ": lambda: SigmaZ(absolute=True),
        "ZZ": lambda: NeighbourInteraction(periodic_bcs=bool(rng.integers(0, 2)), c=1),
        "SWAP": lambda: SWAP([0]),
        "composite": lambda: 2 * SigmaZ() + SigmaX() - 0.5,
        "neg": lambda: -NeighbourInteraction(c=1) * 3,
        "offset": lambda: SigmaZ() + 3e5,  # mean >> spread: one-pass E[x^2]-E[x]^2 formulas lose the variance
        "offset2": lambda: 1e3 * NeighbourInteraction(c=1) - 2e6,
    }
    return pool[which]()


def run_case(case, ctx):
    if case["t"] == "merge":
        return run_merge(case, ctx)
    from qucumber.observables import System

    rng = np_rng(ID, case["seed"], "stats", case["rep"])
    i = case["rep"]
    kind = ["positive", "positive", "complex", "mixed"][i % 4]
    nv = int(rng.integers(2, 5))
    am, ph = gen.draw_model(rng, kind, nv, int(rng.integers(1, 4)), 1, scales=[0.3, 0.7, 1.5])
    if i % 11 == 5:
        # saturated state: every chain ends in the same configuration (variance exactly zero)
        am["b"] = 40.0 * np.sign(am["b"])
        am["W"] = am["W"] * 0.0
        ctx.count("saturated_states")
    st = gen.make_state(kind, am, ph)
    num_samples = int(rng.integers(1, 26))
    num_chains = int(rng.choice(NC))
    if i % 9 == 0:
        num_chains = 1
    if i % 13 == 0:
        num_samples = 1
    burn_in, steps = int(rng.integers(0, 5)), int(rng.integers(0, 5))
    names = ["SigmaZ", "SigmaX", "SigmaY", "absZ", "ZZ", "SWAP", "composite", "neg", "offset", "offset2",
             "occupation", "occ-sum", "occ-scaled", "occ-offset", "occ-neg"]
    use_system = i % 3 == 0
    nobs = int(rng.integers(1, 5)) if use_system else 1
    picks = [names[j] for j in rng.choice(len(names), size=nobs, replace=False)]
    obs = [make_obs(rng, nv, p) for p in picks]
    # observables sharing a name conflict inside a System (documented: one entry per name).  Usually names are kept
    # unique; in part of the System runs two observables share a name on purpose (the same observable listed twice,
    # SigmaZ beside SigmaZ(absolute=True)): the single entry must then be the result ONE of them gets alone on the same
    # chain states - which one is not specified - never a mixture
    share_names = use_system and i % 12 == 3
    if share_names:
        picks = [["SigmaZ", "absZ"], ["SigmaX", "SigmaX"], ["absZ", "SigmaZ", "ZZ"], ["occupation", "occupation"]][(i // 12) % 4]
        obs = [make_obs(rng, nv, p_) for p_ in picks]
        ctx.count("systems_with_shared_names")
    else:
        seen_names, keep_o, keep_p = set(), [], []
        for o, p_ in zip(obs, picks):
            if o.name not in seen_names:
                seen_names.add(o.name)
                keep_o.append(o)
                keep_p.append(p_)
        obs, picks = keep_o, keep_p
    user = i % 4 == 1
    overwrite = bool((i // 4) % 2)
    init = None
    if user:
        nchains_user = int(rng.integers(1, 8))
        init = torch.tensor(R.space(nv)[rng.integers(0, 2 ** nv, size=nchains_user)], dtype=torch.double)
    init_keep = None if init is None else init.clone()
    log = []
    monitors.wrap_instance(st, "sample", log)
    import qucumber

    qucumber.set_random_seed(int(rng.integers(1, 2 ** 31 - 1)), cpu=True, gpu=False, quiet=True)
    kw = dict(num_samples=num_samples, num_chains=num_chains, burn_in=burn_in, steps=steps)
    if user:
        kw.update(initial_state=init, overwrite=overwrite)
    tags = {"single_chain": (num_chains == 1 and not user) or (user and len(init) == 1), "single_sample": num_samples == 1,
            "system": use_system}
    wit = {"kwargs": {k: v for k, v in kw.items() if k != "initial_state"}, "observables": picks, "kind": kind}
    if use_system:
        system = System(*obs)
        ctx.count("system_calls")
        res = ctx.lib("System.statistics", system.statistics, st, tags=tags, **kw)
        results = {ob.name: res.get(ob.name) for ob in obs} if isinstance(res, dict) else {}
        if not isinstance(res, dict) or set(res) != {ob.name for ob in obs}:
            ctx.violation("shape", f"System.statistics returned keys {list(res) if isinstance(res, dict) else type(res)}", tags=tags)
            return
    else:
        ctx.count("statistics_calls")
        res = ctx.lib("Observable.statistics", obs[0].statistics, st, tags=tags, **kw)
        results = {obs[0].name: res}
    object.__delattr__(st, "sample")
    ctx.count("sample_calls_recorded", len(log))
    # ---- schedule
    # The statement fixes count = chains x draws >= requested, not how many chains are used: take the chain count from
    # what was observed (user-supplied chains fix it).
    doc_chains = len(init) if user else (min(num_chains, num_samples) if num_chains != 0 else num_samples)
    if not log:
        # the chains are not drawn through the public nn_state.sample() any more: this monitor cannot observe them (the
        # run as a whole is inconclusive if that is true everywhere: REQUIRED sample_calls_recorded)
        ctx.count("sample_calls_unobservable")
        return
    r0 = log[0]["result"]
    chains = int(r0.shape[0]) if isinstance(r0, torch.Tensor) and r0.dim() == 2 else -1
    if user and chains != len(init):
        ctx.violation("chain-count", f"{chains} chains run although the user supplied {len(init)}", tags=tags, witness=wit)
        return
    draws = len(log)
    if chains * draws < num_samples:
        ctx.violation("draw-count", f"{chains} chains x {draws} draws = {chains * draws} samples drawn, fewer than the {num_samples} requested",
                      tags=tags, witness=wit)
    if chains == doc_chains and draws == int(math.ceil(num_samples / max(chains, 1))):
        ctx.count("runs_following_documented_split")
    prev = None
    states = []
    for t, ev in enumerate(log):
        k = ev["kwargs"].get("k", ev["args"][0] if ev["args"] else None)
        want_k = burn_in if t == 0 else steps
        if k != want_k:
            ctx.violation("gibbs-schedule", f"draw {t}: sample() called with k={k}, expected {'burn_in' if t == 0 else 'steps'}={want_k}",
                          tags=tags, witness=wit)
        ini = ev["kwargs"].get("initial_state")
        if t == 0:
            if user:
                if ini is None or not torch.equal(ini, init_keep):
                    ctx.violation("chain-start", "the first draw did not start from the user's chains", tags=tags, witness=wit)
            elif ini is not None:
                ctx.violation("chain-start", "the first draw was given an initial state although none was supplied", tags=tags, witness=wit)
        else:
            if ini is None or not torch.equal(ini, prev):
                ctx.violation("chain-continuity", f"draw {t} did not continue the chains returned by draw {t-1}", tags=tags, witness=wit)
        r = ev["result"]
        if not isinstance(r, torch.Tensor) or r.shape[0] != chains:
            ctx.violation("chain-count", f"draw {t} returned {tuple(getattr(r, 'shape', ()))} for {chains} chains", tags=tags, witness=wit)
            return
        states.append(r)
        prev = r
    # ---- one-pass oracle on the recorded chain states
    by_name = {}
    for ob in obs:
        by_name.setdefault(ob.name, []).append(ob)
    pending = {}  # name -> messages of candidates that did not match (shared names: a violation only if NO candidate matches)
    for ob, pick_ in zip(obs, picks):
        if pick_ == "SWAP":
            # pairs each sample with its neighbour in the batch by design: evaluated on the batches as drawn
            vals = np.concatenate([np.atleast_1d(ob.apply(st, s.clone()).detach().numpy()) for s in states]).astype(float)
        else:
            # "one pass over every drawn sample": the value of a sample is its own, evaluated one sample at a time - it does
            # not depend on which other chains happened to share its batch
            vals = np.concatenate([np.atleast_1d(ob.apply(st, s[r_:r_ + 1].clone()).detach().numpy()) for s in states
                                   for r_ in range(s.shape[0])]).astype(float)
            ctx.count("samples_evaluated_one_at_a_time", len(vals))
        wm, wv, wn = one_pass(vals)
        got = results.get(ob.name)
        if not isinstance(got, dict) or not {"mean", "variance", "std_error", "num_samples"} <= set(got):
            ctx.violation("shape", f"statistics for {ob.name}: {str(got)[:100]}", tags=tags)
            continue
        sd = 0.0 if math.isnan(wv) else math.sqrt(max(wv, 0))
        scale = max(abs(wm), sd, 1e-12)
        ctx.count("dict_fields_compared", 4)
        bad = []
        if got["num_samples"] != wn or wn < num_samples or wn != chains * draws:
            bad.append(f"num_samples={got['num_samples']} (drawn {wn} = {chains} chains x {draws} draws, requested {num_samples})")
        if not near(got["mean"], wm, scale, 1e-9):
            bad.append(f"mean={got['mean']!r} vs {wm!r}")
        # relative to the variance itself, plus the rounding of a well-conditioned merge (eps*|mean|*sd, (eps*mean)^2)
        vtol_scale = (0.0 if math.isnan(wv) else wv) + 1e-3 * abs(wm) * sd + 1e-18 * wm * wm + 1e-290
        if not near(got["variance"], wv, vtol_scale, 1e-9):
            bad.append(f"variance={got['variance']!r} vs {wv!r}")
        wse = math.sqrt(wv / wn) if not math.isnan(wv) else float("nan")
        if not near(got["std_error"], wse, (0.0 if math.isnan(wse) else wse) + 1e-6 * math.sqrt(abs(wm) * sd / max(wn, 1)) + 1e-6 * abs(wm) + 1e-290, 1e-8):
            bad.append(f"std_error={got['std_error']!r} vs {wse!r}")
        if len(by_name[ob.name]) > 1:
            pending.setdefault(ob.name, []).append("; ".join(bad) if bad else None)
            continue
        if bad:
            ctx.violation("statistics-mismatch", f"{'System' if use_system else 'Observable'}.statistics for {ob.name} "
                          f"({chains} chains x {draws} draws): " + "; ".join(bad) + " [streaming vs one pass over all drawn samples]",
                          tags=dict(tags, chains_is_one=chains == 1, total_one=wn == 1), witness=wit)
    for nm_, msgs in pending.items():
        ctx.count("shared_name_entries_checked")
        if all(m is not None for m in msgs):
            ctx.violation("statistics-mismatch", f"System.statistics entry {nm_!r}, a name shared by {len(msgs)} observables ({chains} chains x "
                          f"{draws} draws), is the one-pass result of none of them on the drawn samples: " + " | ".join(msgs)[:600],
                          tags=dict(tags, shared_name=True), witness=wit)
    # ---- user chains
    if user:
        if overwrite:
            ctx.count("user_chain_overwrite_true")
            if not torch.equal(init, states[-1]):
                ctx.violation("overwrite-true-not-final-state", "with overwrite=True the user's tensor is not the final chain state", tags=tags, witness=wit)
        else:
            ctx.count("user_chain_overwrite_false")
            if not torch.equal(init, init_keep):
                ctx.violation("overwrite-false-modified", "with overwrite=False the user's chains were modified", tags=tags, witness=wit)
    if chains == 1:
        ctx.count("single_chain_runs")
    if draws >= 2:
        ctx.count("multi_draw_runs")
        allv = np.concatenate([np.atleast_1d(obs[0].apply(st, s.clone()).detach().numpy()) for s in states])
        if len(set(np.round(allv, 12).tolist())) > 1:
            ctx.mark_nontrivial(monitors.digest([num_samples, num_chains, burn_in, steps, picks, user, overwrite, am]))
    ctx.seen("samples_chains", (num_samples, num_chains))
    ctx.seen("burn_steps", (burn_in, steps))
    ctx.seen("observable_sets", tuple(sorted(picks)))
    ctx.sample({"case": case, "kwargs": wit["kwargs"], "observables": picks, "draws": draws, "chains": chains})
