"""C07 - every epoch uses every training sample once, paired with its own basis.

Events (L1): the (samples_batch, neg_batch, bases_batch) argument triple of every
compute_batch_gradients call, grouped by epoch through a recording callback;
L3a write sanitizer + content digests on the caller's data / bases over the
whole fit.  Oracle: exactly-once / conservation over unambiguous histories
(pairwise distinct rows, distinct basis strings) and multiset conservation over
heavily duplicated data.
"""
from collections import Counter

import numpy as np
import torch

from vlib import gen, monitors, refmodel as R, trainrec
from vlib.runner import np_rng

ID = "C07"
RULE = ("one case = one fit() run: N in 1..60, batch size 1..64 (N < batch, N = m*batch, N = m*batch + r), neg_batch_size "
        "None / smaller / larger, with and without bases, 1..4 epochs, data as tensor / ndarray / nested list; rows pairwise "
        "distinct with distinct basis strings (unambiguous) or heavily duplicated (multiset). Non-trivial: >= 2 batches "
        "per epoch and >= 2 epochs; distinct by sha256(config, data, bases).")
REQUIRED = ["second_fits_with_new_data", "epochs_checked", "positive_batches_checked", "negative_batches_checked", "runs_with_bases", "runs_without_bases",
            "runs_N_lt_batch", "runs_N_multiple", "runs_N_remainder", "protected_write_ops_inspected", "data_forms_list",
            "data_forms_ndarray", "data_forms_tensor"]
ANCHOR_FILES = ["qucumber/nn_states/neural_state.py", "qucumber/utils/data.py"]
REACH = [
    ("qucumber/nn_states/neural_state.py", r"neg_batch_perm = pos_batch_perm", "_shuffle_data shared permutation"),
    ("qucumber/nn_states/neural_state.py", r"train_samples\.shape\[0\],\s*$", "_shuffle_data randint over data"),
    ("qucumber/nn_states/neural_state.py", r"z_samples\.shape\[0\],", "_shuffle_data randint over z_samples"),
    ("qucumber/nn_states/neural_state.py", r"data\.clone\(\)\.detach\(\)", "fit tensor branch"),
    ("qucumber/nn_states/neural_state.py", r"train_samples = torch\.tensor\(data", "fit array/list branch"),
    ("qucumber/utils/data.py", r"\.all\(dim=1\)", "extract_refbasis_samples"),
]
ASSUMPTIONS = ["a positive row identifies its input row when all rows are pairwise distinct"]
MIN_PER_WORKER = 2


def cases(tier, seed):
    n = 120 if tier == "quick" else 16000
    return [{"rep": i, "seed": seed} for i in range(n)]


def config(case):
    rng = np_rng(ID, case["seed"], case["rep"])
    i = case["rep"]
    kind = ["positive", "complex", "positive", "mixed"][i % 4]
    dup = (i // 4) % 3 == 2
    rel = (i // 12) % 3  # 0: N < batch, 1: multiple, 2: remainder
    if kind == "positive":
        n = int(rng.integers(6, 9))
        Nmax = 60
    else:
        n = int(rng.integers(4, 7)) if not dup else int(rng.integers(2, 4))
        Nmax = 14 if kind == "mixed" else 24
    if rel == 0:
        N = int(rng.integers(1, Nmax // 2))
        pos = N + int(rng.integers(1, 6))
    elif rel == 1:
        pos = int(rng.integers(1, max(2, Nmax // 3)))
        N = pos * int(rng.integers(1, max(2, Nmax // pos)))
    else:
        pos = int(rng.integers(2, max(3, Nmax // 2)))
        N = pos * int(rng.integers(1, max(2, Nmax // pos))) + int(rng.integers(1, pos))
    N = min(N, Nmax)
    if not dup:
        N = min(N, 2 ** n)
    negsel = int(rng.integers(0, 4))
    neg = [None, pos, max(1, pos // 2), pos + 3][negsel]
    cfg = {"kind": kind, "n": n, "N": N, "pos": pos, "neg": neg, "epochs": int(rng.integers(1, 5)), "dup": dup,
           "form": ["tensor", "ndarray", "list"][int(rng.integers(0, 3))], "k": int(rng.integers(0, 2)),
           "seed": int(rng.integers(0, 2 ** 31 - 1))}
    return rng, cfg


def run_case(case, ctx):
    rng, cfg = config(case)
    kind, n, N = cfg["kind"], cfg["n"], cfg["N"]
    am, ph = gen.draw_model(rng, kind, n, 2, 1, scales=[0.1, 0.5])
    st = gen.make_state(kind, am, ph)
    runs = 2 if case["rep"] % 3 == 0 else 1
    for run_i in range(runs):
        # history: a second fit on the SAME state with different data of the same shape must use the new data
        rows, bases = make_data(rng, cfg, kind, n, N)
        if run_i == 1:
            ctx.count("second_fits_with_new_data")
            cfg = dict(cfg, form=["tensor", "ndarray", "list"][(["tensor", "ndarray", "list"].index(cfg["form"]) + 1) % 3])
        one_fit(case, ctx, rng, cfg, st, kind, n, N, rows, bases, run_i)


def make_data(rng, cfg, kind, n, N):
    if cfg["dup"]:
        pool = R.space(n)[rng.integers(0, 2 ** n, size=2)]
        rows = pool[rng.integers(0, 2, size=N)]
    else:
        rows = trainrec.unique_rows(rng, N, n)
    bases = None
    if kind != "positive":
        if cfg["dup"]:
            bp = gen.random_bases(rng, 2, n, p_z=0.0)
            bases = bp[rng.integers(0, 2, size=N)]
        else:
            # neighbours get different strings; several rows are all-Z
            import itertools

            allb = ["".join(b) for b in itertools.product("XYZ", repeat=n)]
            pick = rng.choice(len(allb), size=N, replace=len(allb) < N)
            bases = np.array([list(allb[p]) for p in pick], dtype=str).reshape(N, n)
        # reference-basis rows: about a third / exactly one / all but one (the start rows of the chains come from them)
        nz = [max(1, N // 3), 1, max(1, N - 1)][int(rng.integers(0, 3))]
        if nz == 1 and not cfg["dup"]:
            for r in range(N):  # no accidental further all-Z rows
                if all(c == "Z" for c in bases[r]):
                    bases[r, int(rng.integers(0, n))] = "X"
        for r in rng.choice(N, size=nz, replace=False):
            bases[r] = "Z"
    return rows, bases


def one_fit(case, ctx, rng, cfg, st, kind, n, N, rows, bases, run_i):
    if cfg["form"] == "tensor":
        data = torch.tensor(rows, dtype=torch.double)
    elif cfg["form"] == "ndarray":
        data = rows.copy()
    else:
        data = rows.astype(int).tolist()
    ctx.count("data_forms_" + cfg["form"])
    data_digest = monitors.digest(data if not isinstance(data, list) else np.array(data))
    bases_keep = None if bases is None else bases.copy()
    log = trainrec.Log()
    undo = trainrec.instrument_state(st, log)
    rec = trainrec.recorder_callback(log, digest_params=False)
    import qucumber

    qucumber.set_random_seed(cfg["seed"], cpu=True, gpu=False, quiet=True)
    mon = monitors.DispatchMonitor()
    if isinstance(data, torch.Tensor):
        mon.protect("data", data)
    elif isinstance(data, np.ndarray):
        mon.protect("data", torch.from_numpy(data))
    kw = {} if bases is None else {"input_bases": bases}
    tags = {"state": kind, "with_bases": bases is not None, "run": run_i}
    try:
        with mon:
            start = 1 + (case["rep"] % 5 == 4) * 2  # some runs resume at a later epoch index
            ctx.lib("fit", st.fit, data, epochs=start + cfg["epochs"] - 1, starting_epoch=start, pos_batch_size=cfg["pos"],
                    neg_batch_size=cfg["neg"], k=cfg["k"], lr=0.01, callbacks=[rec], tags=tags, **kw)
    finally:
        undo()
    ctx.count("protected_write_ops_inspected", mon.write_ops)
    wit = {"config": cfg}
    for w in mon.writes:
        ctx.violation("data-written", f"fit wrote to the caller's {w['target']} via {w['op']}", tags=tags, witness=w)
    after = monitors.digest(data if not isinstance(data, list) else np.array(data))
    if after != data_digest:
        ctx.violation("data-modified", "the caller's data changed during fit", tags=tags, witness=wit)
    if bases is not None and not np.array_equal(bases, bases_keep):
        ctx.violation("bases-modified", "the caller's bases changed during fit", tags=tags, witness=wit)

    # ---- group batch calls by epoch
    epochs = []
    cur = None
    for e in log:
        if e["type"] == "cb" and e["event"] == "epoch_start":
            cur = []
            epochs.append(cur)
        elif e["type"] == "cbg_call" and cur is not None:
            a = e["args"]
            cur.append((a[1], a[2], a[3] if len(a) > 3 else e["kwargs"].get("bases_batch")))
    if not any(e["type"] == "cbg_call" for e in log) and any(e["type"] == "cb" and e["event"] == "batch_end" for e in log):
        ctx.count("batches_not_observable_at_the_public_boundary")  # training no longer calls compute_batch_gradients
        return
    if len(epochs) != cfg["epochs"]:
        ctx.violation("epoch-count", f"{len(epochs)} epochs ran, {cfg['epochs']} requested", tags=tags, witness=wit)
    pos, neg_req = cfg["pos"], (cfg["neg"] if cfg["neg"] else cfg["pos"])
    nb = int(np.ceil(N / pos))
    want_pairs = Counter((tuple(r), "" if bases is None else "".join(b)) for r, b in
                         zip(rows.astype(int).tolist(), bases if bases is not None else [None] * N))
    rowset = {tuple(r) for r in rows.astype(int).tolist()}
    zset = rowset if bases is None else {tuple(r) for r, b in zip(rows.astype(int).tolist(), bases) if all(c == "Z" for c in b)}
    orders = []
    for ei, batches in enumerate(epochs):
        ctx.count("epochs_checked")
        if len(batches) != nb:
            ctx.violation("batch-count", f"epoch {ei}: {len(batches)} batches, expected ceil({N}/{pos})={nb}", tags=tags, witness=wit)
        got = Counter()
        order = []
        for bi, (pb, nbatch, bb) in enumerate(batches):
            ctx.count("positive_batches_checked")
            size = pb.shape[0]
            last = bi == len(batches) - 1
            if (not last and size != pos) or (last and not (1 <= size <= pos)):
                ctx.violation("batch-size", f"epoch {ei} batch {bi}: {size} rows (requested {pos}, last={last})", tags=tags, witness=wit)
            if bases is not None:
                if bb is None or len(bb) != size:
                    ctx.violation("bases-batch-shape", f"epoch {ei} batch {bi}: {0 if bb is None else len(bb)} basis rows for {size} samples",
                                  tags=tags, witness=wit)
                    continue
                for r, b in zip(pb.numpy().astype(int).tolist(), bb):
                    got[(tuple(r), "".join(b))] += 1
                    order.append(tuple(r))
            else:
                for r in pb.numpy().astype(int).tolist():
                    got[(tuple(r), "")] += 1
                    order.append(tuple(r))
            # negative batch
            ctx.count("negative_batches_checked")
            nrows = [tuple(r) for r in nbatch.numpy().astype(int).tolist()]
            bad = [r for r in nrows if r not in zset]
            if bad:
                what = "a row that is not in the training data" if bad[0] not in rowset else "a row that was not measured in the reference basis"
                ctx.violation("negative-batch-source", f"epoch {ei} batch {bi}: negative-phase chain started from {what}: {list(bad[0])}",
                              tags=dict(tags, not_in_data=bad[0] not in rowset), witness=wit)
            shared = bases is None and neg_req == pos
            if shared:
                if len(nrows) != size or nrows != [tuple(r) for r in pb.numpy().astype(int).tolist()]:
                    # the code may legitimately draw independently instead; then the size must be neg_batch_size
                    if len(nrows) != neg_req:
                        ctx.violation("negative-batch-size", f"epoch {ei} batch {bi}: {len(nrows)} negative rows, requested {neg_req}",
                                      tags=tags, witness=wit)
            elif len(nrows) != neg_req:
                ctx.violation("negative-batch-size", f"epoch {ei} batch {bi}: {len(nrows)} negative rows, requested {neg_req}",
                              tags=tags, witness=wit)
        if got != want_pairs:
            missing = want_pairs - got
            extra = got - want_pairs
            ctx.violation("exactly-once", f"epoch {ei}: positive batches do not contain every (row, basis) exactly once: "
                          f"missing {list(missing.items())[:2]}, unexpected {list(extra.items())[:2]}",
                          tags=dict(tags, lost=sum(missing.values()), extra=sum(extra.values())), witness=wit)
        orders.append(order)
    if len(orders) >= 2 and N >= 6 and not cfg["dup"]:
        ctx.count("shuffle_observations")
        if all(o == orders[0] for o in orders[1:]):
            ctx.count("epochs_with_identical_order")  # informational only
    ctx.count("runs_with_bases" if bases is not None else "runs_without_bases")
    ctx.count("runs_N_lt_batch" if N < pos else ("runs_N_multiple" if N % pos == 0 else "runs_N_remainder"))
    if nb >= 2 and cfg["epochs"] >= 2:
        ctx.mark_nontrivial(monitors.digest([cfg, rows, None if bases is None else bases.tolist()]))
    ctx.seen("N_pos_neg", (N, pos, cfg["neg"]))
    ctx.seen("kinds", kind)
    ctx.sample({"case": case, "config": cfg, "batches_per_epoch": nb})
