"""C12 - training follows the documented event protocol and honours stop requests.

Events: one global ordered log (callback id, event, epoch, batch, stop flag,
parameter digest) written by m recording callbacks (+ a LambdaCallback, + Timer
when time=True) registered in a known order.  Oracle: acceptor of the documented
protocol; a stop is injected at every event position of the run.
"""
import numpy as np
import torch

from vlib import gen, monitors, refmodel as R, trainrec
from vlib.runner import np_rng

ID = "C12"
RULE = ("one case = one fit() run with (state type, starting_epoch, epochs incl. empty ranges, batches per epoch 1..4, "
        "1..3 callbacks + optional LambdaCallback, time on/off) and a stop injected by the first/middle/last callback at "
        "one event position (every position of every configuration is enumerated) or no stop. Non-trivial and distinct: "
        "(configuration, stop position) pairs never seen before in the run.")
REQUIRED = ["runs", "macro_events_accepted", "stops_injected", "stops_at_batch_start", "stops_at_batch_end",
            "stops_at_epoch_end", "stops_at_epoch_start", "stops_at_train_start", "second_fit_checks",
            "param_change_windows_checked", "runs_with_timer", "runs_with_lambda", "empty_epoch_ranges"]
ANCHOR_FILES = ["qucumber/nn_states/neural_state.py", "qucumber/callbacks/callback_list.py",
                "qucumber/callbacks/lambda_callback.py", "qucumber/callbacks/timer.py"]
REACH = [
    ("qucumber/nn_states/neural_state.py", r"if self\.stop_training:  # terminate immediately", "fit early return"),
    ("qucumber/nn_states/neural_state.py", r"^\s+return$", "fit early return statement"),
    ("qucumber/nn_states/neural_state.py", r"callbacks\.on_train_end\(self\)", "on_train_end"),
    ("qucumber/callbacks/timer.py", r"self\.start_time = time\.time\(\)", "Timer"),
    ("qucumber/callbacks/lambda_callback.py", r"return lambda \*args: None", "LambdaCallback default"),
]
EXHAUSTIVE_NOTE = "for every generated configuration, a stop is injected at every event position (and by no one)"
ASSUMPTIONS = ["a stop raised at train/epoch/batch start admits zero or one further batch (the acceptor demands no more than the statement)"]
MIN_PER_WORKER = 10
EVS = ["train_start", "epoch_start", "batch_start", "batch_end", "epoch_end", "train_end"]


def configs(tier, seed):
    rng = np_rng(ID, seed, "configs")
    n = 24 if tier == "quick" else 1200
    out = []
    for i in range(n):
        kind = gen.KINDS[i % 3]
        start = int(rng.integers(1, 4))
        if i % 8 == 5:
            start = [0, -1][(i // 8) % 2]  # epoch numbers are just integers: a range may start at 0 or below
        span = int(rng.integers(-1, 3)) if i % 4 else -1  # -1: empty range
        epochs = start + span
        nb = int(rng.integers(1, 4 if kind != "mixed" else 3))
        pos = int(rng.integers(1, 4))
        N = (nb - 1) * pos + int(rng.integers(1, pos + 1))
        out.append({"cfg": i, "kind": kind, "start": start, "epochs": epochs, "nb": nb, "pos": pos, "N": N,
                    "m": int(rng.integers(1, 4)), "time": bool(i % 2), "lam": bool((i // 2) % 2),
                    "neg": [None, 2][int(rng.integers(0, 2))], "k": int(rng.integers(0, 2))})
    return out


def n_macro(c):
    ne = max(0, c["epochs"] - c["start"] + 1)
    return 2 + ne * (2 + 2 * c["nb"])


def cases(tier, seed):
    out = []
    for c in configs(tier, seed):
        E = n_macro(c)
        ncb = c["m"] + (1 if c["lam"] else 0)
        out.append(dict(c, inj=None, at=None, seed=seed))
        for t in range(E):
            for inj in sorted({0, ncb // 2, ncb - 1}):
                if c["lam"] and inj == lam_pos(c):
                    continue  # the LambdaCallback only records; recorders inject
                out.append(dict(c, inj=inj, at=t, seed=seed))
    return out


def lam_pos(c):
    return 1 if c["m"] >= 1 else 0


def base_trace(c):
    tr = [("train_start", None, None)]
    for e in range(c["start"], c["epochs"] + 1):
        tr.append(("epoch_start", e, None))
        for b in range(c["nb"]):
            tr.append(("batch_start", e, b))
            tr.append(("batch_end", e, b))
        tr.append(("epoch_end", e, None))
    tr.append(("train_end", None, None))
    return tr


def admissible(c, stop_idx):
    base = base_trace(c)
    if stop_idx is None or stop_idx >= len(base):
        return [base]
    ev, e, b = base[stop_idx]
    pre = base[: stop_idx + 1]
    te = ("train_end", None, None)
    if ev == "train_end":
        return [base]
    if ev == "epoch_end":
        return [pre + [te]]
    if ev == "batch_end":
        return [pre + [("epoch_end", e, None), te]]
    if ev == "batch_start":
        return [pre + [("batch_end", e, b), ("epoch_end", e, None), te]]
    if ev == "epoch_start":
        return [pre + [("batch_start", e, 0), ("batch_end", e, 0), ("epoch_end", e, None), te],
                pre + [("epoch_end", e, None), te]]
    # train_start
    s = c["start"]
    if c["epochs"] < s:
        return [pre + [te]]
    return [pre + [te], pre + [("epoch_start", s, None), ("epoch_end", s, None), te],
            pre + [("epoch_start", s, None), ("batch_start", s, 0), ("batch_end", s, 0), ("epoch_end", s, None), te]]


def run_case(case, ctx):
    from qucumber.callbacks import LambdaCallback

    c = case
    rng = np_rng(ID, c["seed"], "cfg", c["cfg"])
    kind = c["kind"]
    nv = 2
    am, ph = gen.draw_model(rng, kind, nv, 2, 1, scales=[0.3, 0.7])
    st = gen.make_state(kind, am, ph)
    rows = R.space(nv)[rng.integers(0, 4, size=c["N"])]
    data = torch.tensor(rows, dtype=torch.double)
    bases = None
    if kind != "positive":
        bases = gen.random_bases(rng, c["N"], nv, p_z=0.3)
        bases[0] = "Z"
    log = trainrec.Log()
    cbs = []
    ids = []
    rid = 0
    total = c["m"] + (1 if c["lam"] else 0)
    for pos in range(total):
        if c["lam"] and pos == lam_pos(c):
            def mk(name, arity):
                def f1(s):
                    log.add("cb", cb=pos_id, event=name, epoch=None, batch=None, stop=bool(s.stop_training), pd=monitors.params_digest(s))

                def f2(s, e):
                    log.add("cb", cb=pos_id, event=name, epoch=e, batch=None, stop=bool(s.stop_training), pd=monitors.params_digest(s))

                def f3(s, e, b):
                    log.add("cb", cb=pos_id, event=name, epoch=e, batch=b, stop=bool(s.stop_training), pd=monitors.params_digest(s))
                return {1: f1, 2: f2, 3: f3}[arity]
            pos_id = pos
            cbs.append(LambdaCallback(on_train_start=mk("train_start", 1), on_train_end=mk("train_end", 1),
                                      on_epoch_start=mk("epoch_start", 2), on_epoch_end=mk("epoch_end", 2),
                                      on_batch_start=mk("batch_start", 3), on_batch_end=mk("batch_end", 3)))
        else:
            cbs.append(trainrec.recorder_callback(log, cb_id=pos, stop_at=(c["at"] if c["inj"] == pos else None)))
        ids.append(pos)
    if c["lam"]:
        cbs.append(LambdaCallback())  # all-default LambdaCallback: must be inert
    kw = {} if bases is None else {"input_bases": bases}
    tags = {"state": kind}
    before = monitors.params_digest(st)
    cform = trainrec.CONTAINER_FORMS[c["cfg"] % len(trainrec.CONTAINER_FORMS)]
    ctx.seen("callback_container_forms", cform)
    tags["callbacks_as"] = cform
    cb_arg = trainrec.as_container(cbs, cform)
    late = []
    if cform == "list":
        # the list stays the caller's: the caller (here: through a callback of its own) goes on editing it during the run -
        # it queues a callback "for the next run"; the running protocol is that of the callbacks given at the start, and
        # the list comes back as the caller left it (no Timer added to it)
        late_cb = LambdaCallback(on_epoch_start=lambda s_, e_: late.append(("epoch_start", e_)), on_epoch_end=lambda s_, e_: late.append(("epoch_end", e_)),
                                 on_batch_end=lambda s_, e_, b_: late.append(("batch_end", e_, b_)), on_train_end=lambda s_: late.append(("train_end",)))
        first_ = cbs[0]
        orig_ts = first_.on_train_start

        def ts_and_queue(s_, _o=orig_ts):
            _o(s_)
            cb_arg.append(late_cb)
        first_.on_train_start = ts_and_queue
    ctx.lib("fit", st.fit, data, epochs=c["epochs"], pos_batch_size=c["pos"], neg_batch_size=c["neg"], k=c["k"], lr=0.1,
            starting_epoch=c["start"], time=c["time"], callbacks=cb_arg, tags=tags, **kw)
    if cform == "list":
        first_.on_train_start = orig_ts
        ctx.count("caller_list_edited_during_run")
        want_list = cbs + ([late_cb] if cb_arg and cb_arg[-1] is late_cb else [])
        if late or [id(x_) for x_ in cb_arg] != [id(x_) for x_ in want_list]:
            ctx.violation("callers-list-not-private", f"the caller's callbacks list is used live by the run: a callback appended to it during "
                          f"train_start received {late[:4]}; list afterwards holds {[type(x_).__name__ for x_ in cb_arg]}", tags=tags)
    ctx.count("runs")
    if c["time"]:
        ctx.count("runs_with_timer")
    if c["lam"]:
        ctx.count("runs_with_lambda")
    if c["epochs"] < c["start"]:
        ctx.count("empty_epoch_ranges")
    wit = {"config": {k: v for k, v in c.items()}, "trace": [(e["cb"], e["event"], e["epoch"], e["batch"], e["stop"]) for e in log][:80]}

    # ---- group into macro events; each must be delivered to the callbacks in list order
    evs = [e for e in log if e["type"] == "cb"]
    macro = []
    i = 0
    ok = True
    while i < len(evs):
        grp = evs[i:i + total]
        key = (grp[0]["event"], grp[0]["epoch"], grp[0]["batch"])
        if len(grp) != total or [g["cb"] for g in grp] != ids or any((g["event"], g["epoch"], g["batch"]) != key for g in grp):
            ctx.violation("dispatch-order", f"event {key} was not delivered once to each callback in list order: "
                          f"{[(g['cb'], g['event'], g['epoch'], g['batch']) for g in grp]}", tags=tags, witness=wit)
            ok = False
            break
        macro.append({"key": key, "stop": [g["stop"] for g in grp], "pd": [g["pd"] for g in grp]})
        i += total
    if not ok:
        return
    trace = [m["key"] for m in macro]
    stop_idx = next((j for j, m in enumerate(macro) if any(m["stop"])), None)
    expect_idx = c["at"] if c["inj"] is not None else None
    if expect_idx is not None and expect_idx < len(base_trace(c)):
        ctx.count("stops_injected")
        ctx.count("stops_at_" + base_trace(c)[expect_idx][0])
        if stop_idx != expect_idx:
            ctx.violation("stop-flag-visibility", f"stop requested during macro event {expect_idx} but first observed true at {stop_idx}",
                          tags=tags, witness=wit)
            return
    elif stop_idx is not None:
        ctx.violation("spurious-stop", "stop flag became true although nobody requested it", tags=tags, witness=wit)
        return
    adm = admissible(c, stop_idx)
    if trace not in adm:
        exp = adm[0]
        j = next((q for q in range(min(len(exp), len(trace))) if exp[q] != trace[q]), min(len(exp), len(trace)))
        ctx.violation("protocol", f"event trace deviates from the documented protocol at position {j}: got "
                      f"{trace[j] if j < len(trace) else 'END'}, expected {exp[j] if j < len(exp) else 'END'} "
                      f"(stop requested at {None if stop_idx is None else trace[stop_idx]}); trace tail {trace[-5:]}",
                      tags=dict(tags, stop_kind=None if stop_idx is None else trace[stop_idx][0]), witness=wit)
    else:
        ctx.count("macro_events_accepted", len(trace))
    # flag persistence
    if stop_idx is not None:
        for m in macro[stop_idx + 1:]:
            if not all(m["stop"]):
                ctx.violation("stop-not-persistent", "the stop flag was reset during the run", tags=tags, witness=wit)
                break
        if st.stop_training is not True:
            ctx.violation("stop-not-persistent", "stop_training is not True after the run", tags=tags, witness=wit)
        # the request belongs to the model it was made on: another model in the same process trains normally, and
        # resetting the flag on that other model does not take this model's request back
        other = gen.make_state(kind, am, ph)
        olog = trainrec.Log()
        pend = bool(other.stop_training)
        ctx.lib("fit(bystander model)", other.fit, data, epochs=1, pos_batch_size=c["pos"], lr=0.1,
                callbacks=[trainrec.recorder_callback(olog, cb_id=0)], tags=tags, **kw)
        oev = [e["event"] for e in olog if e["type"] == "cb"]
        ctx.count("bystander_models_checked")
        if pend or oev[:2] != ["train_start", "epoch_start"] or oev[-1:] != ["train_end"] or "batch_end" not in oev:
            ctx.violation("stop-leaks-between-models", f"a stop requested on one model: a freshly built second model reports stop_training={pend} "
                          f"and its one-epoch fit delivered {oev[:4]}..{oev[-1:]} ({len(oev)} events)", tags=tags, witness=wit)
        other.stop_training = False
        if st.stop_training is not True:
            ctx.violation("stop-leaks-between-models", "resetting stop_training on another model withdrew this model's pending request",
                          tags=tags, witness=wit)
    # ---- parameters change only between a batch_start and its batch_end
    flat = []
    for m in macro:
        for p in m["pd"]:
            flat.append((m["key"], p))
    prev_key, prev_pd = ("before_fit", None, None), before
    in_batch_changed = 0
    for key, pd in flat:
        if pd != prev_pd:
            legal = prev_key[0] == "batch_start" and key[0] == "batch_end" and prev_key[1:] == key[1:]
            if not legal:
                ctx.violation("parameters-changed-outside-batch", f"parameters changed between {prev_key} and {key}", tags=tags, witness=wit)
                break
            in_batch_changed += 1
        prev_key, prev_pd = key, pd
    ctx.count("param_change_windows_checked", len(flat))
    ctx.count("batches_that_changed_parameters", in_batch_changed)
    nbatches = sum(1 for k in trace if k[0] == "batch_end")
    if nbatches and in_batch_changed == 0:
        ctx.count("runs_where_no_batch_changed_parameters")
    end_pd = monitors.params_digest(st)
    if flat and end_pd != flat[-1][1]:
        ctx.violation("parameters-changed-outside-batch", "parameters changed after train_end", tags=tags, witness=wit)
    # ---- a run started with the stop flag set emits nothing and changes nothing
    if stop_idx is not None:
        n0 = len(log)
        ctx.lib("fit(second)", st.fit, data, epochs=c["epochs"] + 2, pos_batch_size=c["pos"], lr=0.1, starting_epoch=c["start"],
                callbacks=trainrec.as_container(cbs, cform), time=c["time"], tags=tags, **kw)
        ctx.count("second_fit_checks")
        if len(log) != n0 or monitors.params_digest(st) != end_pd:
            ctx.violation("stopped-run-not-inert", f"a fit started with the stop flag set emitted {len(log) - n0} events / changed parameters: "
                          f"{monitors.params_digest(st) != end_pd}", tags=tags, witness=wit)
    else:
        ctx.count("second_fit_checks", 0)
    if c["cfg"] == 0 and c["inj"] is None:
        # informational only: the statement does not speak about argument validation
        for bad in (1, "yes"):
            try:
                st.stop_training = bad
                ctx.count("nonbool_stop_value_accepted")
                st._stop_training = False
            except ValueError:
                ctx.count("nonbool_stop_value_rejected")
    ctx.mark_nontrivial(monitors.digest([{k: c[k] for k in ("kind", "start", "epochs", "nb", "m", "time", "lam")}, c["inj"], c["at"]]))
    ctx.seen("trace_shapes", (c["start"], c["epochs"], c["nb"], total))
    ctx.seen("stop_points", None if stop_idx is None else trace[stop_idx][0])
    ctx.sample({"case": {k: c[k] for k in ("kind", "start", "epochs", "nb", "m", "lam", "time", "inj", "at")},
                "trace": [list(t) for t in trace][:14]})
