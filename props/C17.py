"""C17 - periodic callbacks fire on schedule and their records match what happened.

Events: one fit with MetricEvaluator(s), ObservableEvaluator(s), ModelSaver,
Logger AND an independent recorder callback in the same list; wrappers on the
metric functions, on evaluator.system.statistics and on the logger function
record what was computed when (epoch taken from the recorder); parameter
snapshot at every epoch end.
Oracle: acted-at set {e in run epochs : e % p == 0} (+ the initial save);
accessors / CSV / files must equal the independent record in order.
"""
import csv
import os
import shutil
import tempfile

import numpy as np
import torch

from vlib import gen, monitors, refmodel as R, trainrec
from vlib.runner import np_rng

ID = "C17"
RULE = ("one case = one or two consecutive fit() runs with 1-2 MetricEvaluators, an ObservableEvaluator, a ModelSaver and a Logger "
        "of periods 1..5, (starting_epoch, epochs) ranges, optionally cut short by a stop request at a random event, metadata "
        "callable / dict / None / metadata_only, positive / complex / mixed states, clear_history in between or not. "
        "Non-trivial: >= 2 evaluations recorded and >= 2 distinct periods; distinct by the configuration digest.")
REQUIRED = ["fits", "metric_evaluations_recorded", "observable_evaluations_recorded", "accessor_checks", "csv_rows_compared",
            "saved_files_checked", "logger_calls_recorded", "runs_cut_by_stop", "clear_history_checks", "initial_saves_checked",
            "metadata_callable", "metadata_dict", "metadata_none", "metadata_only_runs"]
ANCHOR_FILES = ["qucumber/callbacks/metric_evaluator.py", "qucumber/callbacks/observable_evaluator.py",
                "qucumber/callbacks/model_saver.py", "qucumber/callbacks/logger.py"]
REACH = [
    ("qucumber/callbacks/metric_evaluator.py", r"self\.past_values\.append\(\(epoch, metric_vals_for_epoch\)\)", "MetricEvaluator.on_epoch_end"),
    ("qucumber/callbacks/observable_evaluator.py", r"self\.past_values\.append\(\(epoch, obs_vals\)\)", "ObservableEvaluator.on_epoch_end"),
    ("qucumber/callbacks/model_saver.py", r"torch\.save\(metadata, save_path\)", "ModelSaver metadata_only"),
    ("qucumber/callbacks/model_saver.py", r"self\._save\(nn_state, 0, save_path\)", "ModelSaver initial save"),
    ("qucumber/callbacks/logger.py", r"self\.logger_fn\(self\.msg_gen\(nn_state, epoch", "Logger.on_epoch_end"),
    ("qucumber/callbacks/metric_evaluator.py", r"writer\.writerow\(dict\(epoch=epoch, \*\*self\.last\)\)", "MetricEvaluator CSV row"),
    ("qucumber/callbacks/observable_evaluator.py", r"writer\.writerow\(row\)", "ObservableEvaluator CSV row"),
]
ASSUMPTIONS = ["the recorder callback is first in the list, so the epoch of every later call in the same dispatch is known"]
MIN_PER_WORKER = 2


def cases(tier, seed):
    n = 64 if tier == "quick" else 12000
    return [{"rep": i, "seed": seed} for i in range(n)]


def run_case(case, ctx):
    tmp = tempfile.mkdtemp(prefix="verif-c17-", dir="/var/tmp")
    cwd = os.getcwd()
    try:
        body(case, ctx, tmp)
    finally:
        os.chdir(cwd)  # part of the cases change the working directory on purpose
        shutil.rmtree(tmp, ignore_errors=True)


def body(case, ctx, tmp):
    from qucumber.callbacks import Logger, MetricEvaluator, ModelSaver, ObservableEvaluator
    from qucumber.observables import NeighbourInteraction, SigmaZ

    i = case["rep"]
    rng = np_rng(ID, case["seed"], i)
    kind = ["positive", "positive", "complex", "mixed"][i % 4]
    nv = 2
    am, ph = gen.draw_model(rng, kind, nv, 2, 1, scales=[0.3, 0.8])
    st = gen.make_state(kind, am, ph)
    N = 6
    data = torch.tensor(R.space(nv)[rng.integers(0, 4, size=N)], dtype=torch.double)
    kw = {}
    if kind != "positive":
        b = gen.random_bases(rng, N, nv, p_z=0.4)
        b[0] = "Z"
        kw["input_bases"] = b
    pm1, pm2, po, psv, plg = (int(x) for x in rng.integers(1, 6, size=5))
    start = int(rng.integers(1, 4))
    epochs = start + int(rng.integers(0, 9))
    two_runs = i % 3 == 0
    clear = two_runs and (i // 3) % 2 == 0
    md_mode = ["callable", "dict", "none", "only"][(i // 2) % 4]
    save_initial = bool(rng.integers(0, 2))
    tags = {"state": kind}
    cur = {"epoch": None}
    rec_metric = {"a": [], "b": [], "c": [], "period": []}  # name -> [(epoch, value)]
    rec_obs = []  # [(epoch, dict)]
    rec_log = []  # [(epoch, message)]
    snaps = {}  # epoch -> params snapshot

    log = trainrec.Log()

    def on_ev(e, s):
        if e["event"] == "epoch_end":
            cur["epoch"] = e["epoch"]
            snaps[e["epoch"]] = monitors.params_snapshot(s)
        if e["event"] == "train_start":
            snaps["initial"] = monitors.params_snapshot(s)

    stop_at = None
    total_events = 2 + (epochs - start + 1) * (2 + 2 * 2)
    if i % 5 == 1:
        stop_at = int(rng.integers(1, max(2, total_events - 1)))
    rec = trainrec.recorder_callback(log, digest_params=False, extra=on_ev, stop_at=stop_at)

    stale = []
    csv_rows_due = [0]  # rows the metric log must hold once the current epoch-end event is over (append-only over all runs)
    csv_late = []

    def csv_probe(s_, e_):
        # another callback, listed after the evaluators, reads the log DURING the run (a dashboard tailing the file): the
        # rows of all evaluations made so far are there, not buffered until the run ends
        try:
            n_ = sum(1 for l_ in open(csv1).read().splitlines()[1:] if l_.strip())
        except OSError:
            n_ = -1
        ctx.count("csv_reads_during_the_run")
        if n_ != csv_rows_due[0] and not csv_late:
            csv_late.append(f"at the end of epoch {e_} the metric log holds {n_} rows, {csv_rows_due[0]} evaluations have been made")

    def mk_metric(name):
        def f(nn_state, **k):
            v = float(sum(float(p.data.sum()) for p in nn_state.rbm_am.parameters())) + OFFSETS[name]
            if name == "b":
                v = np.float64(v)
            rec_metric[name].append((cur["epoch"], v))
            if name == "a":
                csv_rows_due[0] += 1
            # evaluated on the parameters the model has at the END of this epoch (snapshot taken at the same event by the
            # first callback in the list), not on those before the epoch's last update
            sn_ = snaps.get(cur["epoch"])
            if sn_ is not None:
                exp_ = float(sum(float(t_.sum()) for k_, t_ in sn_.items() if k_.startswith("rbm_am."))) + OFFSETS[name]
                ctx.count("metric_values_vs_epoch_end_parameters")
                if abs(float(v) - exp_) > 1e-10 * (1 + abs(exp_)) and not stale:
                    stale.append(f"metric {name!r} at epoch {cur['epoch']} saw parameters giving {float(v)!r}; the parameters at the end of that "
                                 f"epoch give {exp_!r}")
            return v
        return f

    csv1 = os.path.join(tmp, "m1.csv")
    csvo = os.path.join(tmp, "o.csv")
    verbose = i % 4 == 2  # also run the printing paths (their output goes to the worker log)
    ev1 = MetricEvaluator(pm1, {"a": mk_metric("a"), "b": mk_metric("b")}, log=csv1, verbose=verbose, offset=3)
    # a metric may be called like one of the evaluator's own attributes ("period"): the subscript form ev["period"] is the
    # metric's value series, whatever the attribute of that name holds
    ev2 = MetricEvaluator(pm2, {"c": mk_metric("c"), "period": mk_metric("period")}, verbose=verbose)
    obs = [SigmaZ(), NeighbourInteraction(c=1)]
    evo = ObservableEvaluator(po, obs, log=csvo, verbose=verbose, num_samples=6, num_chains=3, burn_in=2, steps=1)
    if verbose:
        ctx.count("runs_with_verbose_evaluators")
    orig_stats = evo.system.statistics

    def stats(nn_state, **k):
        r = orig_stats(nn_state, **k)
        rec_obs.append((cur["epoch"], {n: dict(v) for n, v in r.items()}, dict(k)))
        return r

    evo.system.statistics = stats
    folder = os.path.join(tmp, "models")
    md_obj = {"callable": (lambda s, e: {"epoch_meta": e, "tag": "x"}), "dict": {"tag": "fixed", "n": 2}, "none": None,
              "only": (lambda s, e: {"epoch_meta": e})}[md_mode]
    ctx.count({"callable": "metadata_callable", "dict": "metadata_dict", "none": "metadata_none", "only": "metadata_only_runs"}[md_mode])
    # in part of the runs the folder is given as a RELATIVE path and the working directory changes between constructing the
    # saver and training: the files still belong in the folder that was named (and created) at construction
    rel_folder = i % 4 == 3
    cwd0 = os.getcwd()
    if rel_folder:
        os.chdir(tmp)
        ctx.count("savers_with_relative_folder")
    try:
        if i % 3 == 1:  # positional form of the documented signature
            saver = ModelSaver(psv, "models" if rel_folder else folder, "ep_{}.pt", save_initial, md_obj, md_mode == "only")
        else:
            saver = ModelSaver(psv, "models" if rel_folder else folder, "ep_{}.pt", save_initial=save_initial, metadata=md_obj,
                               metadata_only=(md_mode == "only"))
    finally:
        if rel_folder:
            os.makedirs(os.path.join(tmp, "elsewhere"), exist_ok=True)
            os.chdir(os.path.join(tmp, "elsewhere"))

    def logfn(msg):
        rec_log.append((cur["epoch"], msg))
        ctx.count("logger_calls_recorded")

    use_gen = bool(rng.integers(0, 2))
    lg = Logger(plg, logger_fn=logfn, msg_gen=(lambda s, e, **k: f"E={e};k={sorted(k.items())}") if use_gen else None, note="n1")
    from qucumber.callbacks import LambdaCallback

    cbs = [rec, ev1, ev2, evo, saver, lg, LambdaCallback(on_epoch_end=csv_probe)]

    cform = trainrec.CONTAINER_FORMS[i % len(trainrec.CONTAINER_FORMS)]
    ctx.seen("callback_container_forms", cform)

    def run(s, e):
        ctx.lib("fit", st.fit, data, epochs=e, starting_epoch=s, pos_batch_size=3, lr=0.05, callbacks=trainrec.as_container(cbs, cform),
                time=bool(i % 2), tags=dict(tags, callbacks_as=cform), **kw)
        ctx.count("fits")

    run(start, epochs)
    # "epochs of the run" = epochs that were started (every started epoch also ends: C12); taking them from the start
    # events makes an epoch whose end event is lost (e.g. cut by a mid-batch stop) count as missed by the callbacks
    ran1 = [e["epoch"] for e in log if e["type"] == "cb" and e["event"] == "epoch_start"]
    if st.stop_training:
        ctx.count("runs_cut_by_stop")
    check_all(ctx, tags, ran1, (pm1, pm2, po, psv, plg), ev1, ev2, evo, rec_metric, rec_obs, rec_log, snaps, folder, md_mode, md_obj,
              save_initial, csv1, csvo, st, use_gen, first_run=True, kind=kind)
    if two_runs:
        st._stop_training = False
        if clear:
            for ev in (ev1, ev2, evo):
                ctx.lib("clear_history", ev.clear_history, tags=tags)
                ctx.count("clear_history_checks")
                if len(ev) != 0 or ev.last != {} or len(ev.epochs) != 0:
                    ctx.violation("clear-history", "clear_history left records behind", tags=tags)
            for k_ in rec_metric:
                rec_metric[k_].clear()
            rec_obs.clear()
        n_before = len(ran1)
        rec.n = 10 ** 9  # no further stop injection
        # the second run resumes after the first, repeats its last epoch, or starts over from the first run's start /
        # from epoch 1 with the same callback objects: epoch NUMBERS may recur, every due epoch of every run is acted on
        mode2 = (i // 6) % 4
        s2 = (ran1[-1] + 1) if ran1 else start
        if ran1 and mode2 == 1:
            s2 = ran1[-1]
        elif mode2 == 2:
            s2 = start
        elif mode2 == 3:
            s2 = 1
        ctx.seen("second_run_starts", ["resume", "repeat-last-epoch", "same-start", "from-1"][mode2])
        run(s2, max(s2, (ran1[-1] if ran1 else start)) + int(rng.integers(1, 5)))
        ran_all = [e["epoch"] for e in log if e["type"] == "cb" and e["event"] == "epoch_start"]
        ran2 = ran_all[n_before:]
        check_all(ctx, tags, (ran2 if clear else ran_all), (pm1, pm2, po, psv, plg), ev1, ev2, evo, rec_metric, rec_obs, rec_log, snaps,
                  folder, md_mode, md_obj, save_initial, csv1, csvo, st, use_gen, first_run=False, kind=kind, csv_epochs=ran_all,
                  log_epochs=ran_all)
    if csv_late:
        ctx.violation("csv-rows", "the CSV log lags behind the evaluations while training is running: " + csv_late[0],
                      tags=dict(tags, cb="MetricEvaluator", during_run=True))
    if stale:
        ctx.violation("metric-records", "an evaluator was run on parameters that are not those at the end of its epoch: " + stale[0],
                      tags=dict(tags, cb="MetricEvaluator", stale_parameters=True))
    nev = len(rec_metric["a"]) + len(rec_obs)
    if nev >= 2 and len({pm1, pm2, po, psv, plg}) >= 2:
        ctx.mark_nontrivial(monitors.digest([i, pm1, pm2, po, psv, plg, start, epochs, stop_at, md_mode, kind, two_runs, clear]))
    ctx.seen("periods", (pm1, pm2, po, psv, plg))
    ctx.seen("epoch_ranges", (start, epochs))
    ctx.sample({"case": case, "kind": kind, "periods": [pm1, pm2, po, psv, plg], "start": start, "epochs": epochs,
                "stop_at_event": stop_at, "ran": ran1, "metadata": md_mode, "two_runs": two_runs, "clear": clear})


OFFSETS = {"a": 0.0, "b": 1.0, "c": 2.0, "period": 3.0}


def value_series(ev, nm):
    """the value series of a metric: attribute style, or subscript style for names that collide with an attribute"""
    return ev[nm] if nm in ("period",) else getattr(ev, nm)


def check_all(ctx, tags, ran, periods, ev1, ev2, evo, rec_metric, rec_obs, rec_log, snaps, folder, md_mode, md_obj, save_initial,
              csv1, csvo, st, use_gen, first_run, kind, csv_epochs=None, log_epochs=None):
    pm1, pm2, po, psv, plg = periods
    wit = {"ran_epochs": ran, "periods": periods}

    def acted(p, eps=None):
        return [e for e in (ran if eps is None else eps) if e % p == 0]

    # ---- metric evaluators
    for ev, p, names in ((ev1, pm1, ["a", "b"]), (ev2, pm2, ["c", "period"])):
        want_ep = acted(p)
        for nm in names:
            recd = rec_metric[nm]
            ctx.count("metric_evaluations_recorded", len(recd))
            if [e for e, _ in recd] != want_ep:
                ctx.violation("metric-schedule", f"metric {nm!r} (period {p}) was evaluated at epochs {[e for e, _ in recd]}, the multiples of "
                              f"{p} among the run's epochs are {want_ep}", tags=dict(tags, cb="MetricEvaluator"), witness=wit)
                return
        ctx.count("accessor_checks")
        bad = []
        # arrays handed out are the caller's: modifying them must not change the record
        for nm in names:
            if want_ep:
                arr_ = value_series(ev, nm)
                try:
                    arr_[...] = -12345.0
                except Exception:  # noqa: BLE001  (read-only array: fine)
                    pass
                eps_ = ev.epochs
                try:
                    eps_[...] = -7
                except Exception:  # noqa: BLE001
                    pass
        if len(ev) != len(want_ep):
            bad.append(f"len={len(ev)} vs {len(want_ep)}")
        if list(ev.epochs) != want_ep:
            bad.append(f"epochs={list(ev.epochs)} vs {want_ep}")
        if ev.names != names:
            bad.append(f"names={ev.names}")
        for nm in names:
            vals = [v for _, v in rec_metric[nm]]
            arr = ctx.lib("MetricEvaluator.<name>", value_series, ev, nm, tags=dict(tags, cb="MetricEvaluator")) if want_ep else np.array([])
            sub_ = ev[nm] if want_ep else arr
            if not (hasattr(arr, "__iter__") and hasattr(sub_, "__iter__")):
                bad.append(f"the value series of metric {nm!r} came back as {type(arr).__name__} / ev[{nm!r}] as {type(sub_).__name__} "
                           f"({str(sub_)[:60]}) instead of the recorded values {vals[:4]}")
                continue
            if list(arr) != vals or (want_ep and list(sub_) != vals):
                bad.append(f"{nm} array {list(arr)[:4]} vs recorded {vals[:4]}")
            for j in range(-len(vals), len(vals)):
                if ctx.lib("MetricEvaluator.get_value", ev.get_value, nm, j, tags=dict(tags, cb="MetricEvaluator")) != vals[j]:
                    bad.append(f"get_value({nm!r},{j})={ev.get_value(nm, j)!r} vs {vals[j]!r}")
                    break
            if vals and (ev.get_value(nm) != vals[-1] or ev.last.get(nm) != vals[-1]):
                bad.append(f"last/{nm}: get_value()={ev.get_value(nm)!r} last={ev.last.get(nm)!r} vs {vals[-1]!r}")
        # `last` is handed out as a dict of the latest values: a caller rounding / editing it for display must not rewrite
        # the history the other accessors (and an early stopper) read
        if want_ep and isinstance(ev.last, dict) and ev.last:
            for k_ in list(ev.last):
                ev.last[k_] = -31337.0
            for nm in names:
                vals = [v for _, v in rec_metric[nm]]
                vs_ = value_series(ev, nm)
                if vals and (ev.get_value(nm, -1) != vals[-1] or not hasattr(vs_, "__iter__") or list(vs_)[-1] != vals[-1]):
                    bad.append(f"editing the dict handed out as `last` changed the recorded history of {nm!r}")
            try:
                ev.last = {nm: rec_metric[nm][-1][1] for nm in names if rec_metric[nm]}
            except AttributeError:  # a read-only attribute on a refactored tree: nothing to restore
                pass
        if bad:
            ctx.violation("metric-records", "MetricEvaluator records disagree with what was computed: " + "; ".join(bad[:3]),
                          tags=dict(tags, cb="MetricEvaluator"), witness=wit)
    # ---- observable evaluator
    want_ep = acted(po)
    ctx.count("observable_evaluations_recorded", len(rec_obs))
    if not rec_obs and len(evo) > 0:
        # the evaluator no longer goes through system.statistics: the independent record could not be made; the schedule is
        # still checked through the public accessor, the values only for self-consistency (CSV vs accessors below)
        ctx.count("observable_record_unobservable")
        if list(evo.epochs) != want_ep:
            ctx.violation("observable-schedule", f"observables (period {po}) recorded at {list(evo.epochs)}, expected {want_ep}",
                          tags=dict(tags, cb="ObservableEvaluator"), witness=wit)
        rec_obs = [(int(e), {n: dict(evo.get_value(n, j)) for n in evo.names}, {"num_samples": 6, "num_chains": 3, "burn_in": 2, "steps": 1})
                   for j, e in enumerate(evo.epochs)]
    if [e for e, _, _ in rec_obs] != want_ep:
        ctx.violation("observable-schedule", f"observables (period {po}) evaluated at {[e for e, _, _ in rec_obs]}, expected {want_ep}",
                      tags=dict(tags, cb="ObservableEvaluator"), witness=wit)
        return
    bad = []
    ctx.count("accessor_checks")
    if len(evo) != len(want_ep) or list(evo.epochs) != want_ep:
        bad.append(f"len/epochs {len(evo)} {list(evo.epochs)} vs {want_ep}")
    for k_, _, kwargs in rec_obs[:1]:
        if kwargs != {"num_samples": 6, "num_chains": 3, "burn_in": 2, "steps": 1}:
            bad.append(f"sampling kwargs passed on as {kwargs}")
    for name in evo.names:
        series = [d[name] for _, d, _ in rec_obs]
        if want_ep:
            os_ = ctx.lib("ObservableEvaluator.<name>", getattr, evo, name, tags=dict(tags, cb="ObservableEvaluator"))
            for stat in ("mean", "variance", "std_error"):
                w = [s[stat] for s in series]
                for acc in (stat, stat + "s"):
                    g = list(ctx.lib(f"ObservableStatistics.{acc}", getattr, os_, acc, tags=dict(tags, cb="ObservableEvaluator")))
                    if not all((a == b) or (a != a and b != b) for a, b in zip(g, w)) or len(g) != len(w):
                        bad.append(f"{name}.{acc}={g[:3]} vs recorded {w[:3]}")
            if list(evo[name]["num_samples"]) != [s["num_samples"] for s in series]:
                bad.append(f"{name}.num_samples")
            for j in range(-len(series), len(series)):
                gv = ctx.lib("ObservableEvaluator.get_value", evo.get_value, name, j, tags=dict(tags, cb="ObservableEvaluator"))
                if gv != series[j] and not _nan_eq(gv, series[j]):
                    bad.append(f"get_value({name!r},{j})")
                    break
            if not _nan_eq(evo.last.get(name), series[-1]):
                bad.append(f"last[{name}]")
    if sorted(evo.names) != sorted(["SigmaZ", "NeighbourInteraction(periodic_bcs=False, c=1)"]):
        bad.append(f"names={evo.names}")
    if bad:
        ctx.violation("observable-records", "ObservableEvaluator records disagree with what was computed: " + "; ".join(bad[:3]),
                      tags=dict(tags, cb="ObservableEvaluator"), witness=wit)
    # ---- CSV logs (append-only over both runs; never cleared)
    cep = ran if csv_epochs is None else csv_epochs
    rows = list(csv.DictReader(open(csv1)))
    want_rows = [e for e in cep if e % pm1 == 0]
    ctx.count("csv_rows_compared", len(rows))
    raw = open(csv1).read().splitlines()
    if raw[:1] != ["epoch,a,b"] or sum(1 for l in raw if l.startswith("epoch,")) != 1:
        ctx.violation("csv-header", f"CSV header lines: {[l for l in raw if l.startswith('epoch,')]}", tags=dict(tags, cb="MetricEvaluator"))
    if [int(r["epoch"]) for r in rows] != want_rows:
        ctx.violation("csv-rows", f"CSV rows for epochs {[r['epoch'] for r in rows]}, expected {want_rows}", tags=dict(tags, cb="MetricEvaluator"), witness=wit)
    elif csv_epochs is None or True:
        tail = rows[-len(rec_metric["a"]):] if rec_metric["a"] else []
        for r, (ea, va), (eb, vb) in zip(tail, rec_metric["a"], rec_metric["b"]):
            if int(r["epoch"]) != ea or float(r["a"]) != float(va) or float(r["b"]) != float(vb):
                ctx.violation("csv-values", f"CSV row {r} does not round-trip the values computed at epoch {ea}: a={va!r}, b={vb!r}",
                              tags=dict(tags, cb="MetricEvaluator"), witness=wit)
                break
    rowso = list(csv.DictReader(open(csvo)))
    ctx.count("csv_rows_compared", len(rowso))
    if [int(r["epoch"]) for r in rowso] != [e for e in cep if e % po == 0]:
        ctx.violation("csv-rows", f"observable CSV rows for epochs {[r['epoch'] for r in rowso]}", tags=dict(tags, cb="ObservableEvaluator"), witness=wit)
    else:
        for r, (eo, d, _) in zip(rowso[-len(rec_obs):] if rec_obs else [], rec_obs):
            for name, sd in d.items():
                for stat in ("mean", "variance", "std_error"):
                    cell = r.get(f"{name}_{stat}")
                    if cell is None or not (float(cell) == float(sd[stat]) or (float(cell) != float(cell) and sd[stat] != sd[stat])):
                        ctx.violation("csv-values", f"observable CSV cell {name}_{stat}={cell!r} at epoch {eo}, computed {sd[stat]!r}",
                                      tags=dict(tags, cb="ObservableEvaluator"), witness=wit)
                        return
    # ---- logger
    lep = ran if log_epochs is None else log_epochs
    wantl = [e for e in lep if e % plg == 0]
    if [e for e, _ in rec_log] != wantl:
        ctx.violation("logger-schedule", f"logger (period {plg}) called at {[e for e, _ in rec_log]}, expected {wantl}", tags=dict(tags, cb="Logger"), witness=wit)
    else:
        for e, msg in rec_log:
            exp = f"E={e};k=[('note', 'n1')]" if use_gen else None
            if (exp is not None and msg != exp) or (exp is None and (str(e) not in str(msg) or "n1" not in str(msg))):
                ctx.violation("logger-message", f"logger message at epoch {e}: {msg!r}", tags=dict(tags, cb="Logger"))
                break
    # ---- model saver
    all_ran = ran if log_epochs is None else log_epochs
    want_files = {f"ep_{e}.pt" for e in all_ran if e % psv == 0} | ({"ep_initial.pt"} if save_initial else set())
    have = set(os.listdir(folder)) if os.path.isdir(folder) else set()
    if have != want_files:
        ctx.violation("saver-files", f"files written {sorted(have)}, expected {sorted(want_files)} (period {psv}, save_initial={save_initial})",
                      tags=dict(tags, cb="ModelSaver"), witness=wit)
    for fn in sorted(have & want_files):
        key = fn[3:-3]
        ep = "initial" if key == "initial" else int(key)
        d = torch.load(os.path.join(folder, fn))
        ctx.count("saved_files_checked")
        if ep == "initial":
            ctx.count("initial_saves_checked")
            # (a second run rewrites it at its own train start: snaps["initial"] is then that run's snapshot)
        emeta = 0 if ep == "initial" else ep
        if md_mode == "only":
            if d != {"epoch_meta": emeta}:
                ctx.violation("saver-metadata", f"{fn}: metadata_only file contains {str(d)[:120]}", tags=dict(tags, cb="ModelSaver"))
            continue
        sn = snaps.get(ep)
        if sn is None:
            continue
        for net in st.networks:
            for pn, val in d.get(net, {}).items():
                if not torch.equal(val, sn[f"{net}.{pn}"]):
                    ctx.violation("saver-parameters", f"{fn} does not load back to the parameters the model had at the end of epoch {ep} "
                                  f"({net}.{pn})", tags=dict(tags, cb="ModelSaver"), witness=wit)
                    break
            if net not in d:
                ctx.violation("saver-parameters", f"{fn} lacks {net}", tags=dict(tags, cb="ModelSaver"))
        if md_mode == "callable" and (d.get("epoch_meta") != emeta or d.get("tag") != "x"):
            ctx.violation("saver-metadata", f"{fn}: metadata {d.get('epoch_meta')!r}/{d.get('tag')!r}, expected epoch {emeta}", tags=dict(tags, cb="ModelSaver"))
        if md_mode == "dict" and (d.get("tag") != "fixed" or d.get("n") != 2):
            ctx.violation("saver-metadata", f"{fn}: dict metadata not stored", tags=dict(tags, cb="ModelSaver"))
    if md_mode == "dict" and md_obj != {"tag": "fixed", "n": 2}:
        ctx.violation("saver-metadata-mutated", f"the ModelSaver's metadata dict was modified: {sorted(md_obj)}", tags=dict(tags, cb="ModelSaver"))


def _nan_eq(a, b):
    if isinstance(a, dict) and isinstance(b, dict):
        return set(a) == set(b) and all(_nan_eq(a[k], b[k]) for k in a)
    try:
        return a == b or (a != a and b != b)
    except Exception:  # noqa: BLE001
        return False
