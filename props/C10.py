"""C10 - fidelity, KL and NLL report the quantities they are named for.

Events: return value AND Python type of fidelity / KL / NLL on every code path
(pure/mixed; bases None / list / dict of pre-rotated targets; sample_bases
None/given; space given/omitted; deprecated kwargs).
Oracle: dense reference (overlap, Uhlmann fidelity via eigh square roots, mean
KL of Born distributions, mean log Born probability).
"""
import warnings

import numpy as np
import torch

from vlib import gen, monitors, refmodel as R
from vlib.runner import np_rng

ID = "C10"
RULE = ("one case = one model (three state types, n=1..4, parameters restricted so that every model Born probability in "
        "every used basis is >= 1e-10; models are redrawn, not rescaled, to get there) with random normalised complex targets (pure: generic / real / sparse; mixed: full "
        "rank, rank-1, rank-deficient), basis lists with repeats and all-Z, sample multisets with per-row bases. "
        "Non-trivial: all parameters non-zero and at least one basis with Y; distinct by sha256(parameters, targets, bases).")
REQUIRED = ["states_used_before_with_other_parameters", "fidelity_values_compared", "kl_values_compared", "nll_values_compared", "type_checks", "self_fidelity_checks",
            "self_kl_checks", "kl_dict_target_calls", "kl_bases_none_calls", "nll_with_bases_calls", "phase_invariance_checks"]
ANCHOR_FILES = ["qucumber/utils/training_statistics.py"]
REACH = [
    ("qucumber/utils/training_statistics.py", r"F = cplx\.inner_prod\(target, psi\)", "fidelity pure"),
    ("qucumber/utils/training_statistics.py", r"eigvals = np\.linalg\.eigvals\(prod\)", "fidelity mixed"),
    ("qucumber/utils/training_statistics.py", r"NLL_ = -torch\.mean\(probs_to_logits\(nn_probs\)\)", "NLL no bases"),
    ("qucumber/utils/training_statistics.py", r"Upsi = rotate_psi_inner_prod\(", "NLL pure rotated"),
    ("qucumber/utils/training_statistics.py", r"rotate_rho_probs\(nn_state, basis, samples\[indices == i", "NLL mixed rotated"),
    ("qucumber/utils/training_statistics.py", r"bases = list\(target\.keys\(\)\)", "KL dict target, bases None"),
    ("qucumber/utils/training_statistics.py", r"nn_probs = nn_state\.probability\(space, Z\)", "KL bases None"),
    ("qucumber/utils/training_statistics.py", r"target_psi_r = rotate_psi\(nn_state, basis, space, psi=target\)", "KL pure tensor target"),
    ("qucumber/utils/training_statistics.py", r"target_probs_r = torch\.diagonal\(cplx\.real\(target_rho_r\)\)", "KL mixed dict target"),
    ("qucumber/utils/training_statistics.py", r"target_probs_r = rotate_rho_probs\(nn_state, basis, space, rho=target\)", "KL mixed tensor target"),
]
ASSUMPTIONS = ["numpy eigh / complex128 linear algebra", "a plain real number = instance of float (numpy.floating accepted), a torch.Tensor is not",
               "mixed-state fidelity compared to 1e-6 absolute (square roots amplify eigenvalue noise of rank-deficient products)"]
MIN_PER_WORKER = 2
TAU = 3e-9


def cases(tier, seed):
    reps = 5 if tier == "quick" else 800
    out = []
    for kind in gen.KINDS:
        for n in range(1, 5):
            for r in range(reps):
                out.append({"kind": kind, "n": n, "rep": r, "seed": seed})
    return out


def is_plain_number(x):
    return isinstance(x, float) and not isinstance(x, torch.Tensor)


def pure_target(rng, N, cls):
    if cls == "real":
        z = rng.normal(size=N) + 0j
    elif cls == "sparse" and N > 1:
        z = np.zeros(N, dtype=complex)
        k = rng.choice(N, size=max(1, N // 2), replace=False)
        z[k] = rng.normal(size=len(k)) + 1j * rng.normal(size=len(k))
    else:
        z = rng.normal(size=N) + 1j * rng.normal(size=N)
    return z / np.linalg.norm(z)


def mixed_target(rng, N, cls):
    if cls == "rank1":
        z = pure_target(rng, N, "generic")
        return np.outer(z, z.conj())
    r = N if cls == "full" else max(1, N // 2)
    a = rng.normal(size=(N, r)) + 1j * rng.normal(size=(N, r))
    m = a @ a.conj().T
    return m / np.real(np.trace(m))


def kl_ref(Pt, Pm):
    Pt = np.clip(Pt, 0, None)
    m = Pt > 0
    return float(np.sum(Pt[m] * (np.log(Pt[m]) - np.log(Pm[m]))))


def run_case(case, ctx):
    from qucumber.utils import training_statistics as ts

    kind, n = case["kind"], case["n"]
    rng = np_rng(ID, case["seed"], kind, n, case["rep"])
    nh = int(rng.integers(1, 4))
    na = int(rng.integers(1, 3))
    N = 2 ** n
    allb = ["".join(b) for b in __import__("itertools").product("XYZ", repeat=n)]
    nb = int(rng.integers(1, 5))
    blist = [allb[i] for i in rng.integers(0, len(allb), size=nb)]
    if case["rep"] % 2 == 0 and not any("Y" in b for b in blist):
        blist[0] = "Y" + blist[0][1:]
    if case["rep"] % 3 == 0:
        blist.append("Z" * n)
    blist_u = list(dict.fromkeys(blist))
    # model inside the metric range: every Born probability in every used basis >= 1e-12
    ok_range = False
    for _ in range(40):
        # redraw (scaling parameters down would push a pure state towards |+...+>, whose X-basis probabilities vanish)
        am, ph = gen.draw_model(rng, kind, n, nh, na, scales=gen.SCALES_MODERATE, phase_aux_bias=(case["rep"] % 4 == 1))
        kd, dense = R.state_dense(kind, am, ph, n)
        Zr = float(np.real(np.trace(R.as_rho(kd, dense))))
        pmin = min(float(np.min(R.born(kd, dense, b)[0])) / Zr for b in set(blist) | {"Z" * n})
        if pmin >= 1e-10:
            ok_range = True
            break
    if not ok_range:
        ctx.count("cases_skipped_outside_metric_range")
        return
    if case["rep"] % 2:
        def warm(s_):
            sp_ = s_.generate_hilbert_space()
            if kind == "mixed":
                t_ = gen.enc(np.eye(N) / N)
            else:
                t_ = gen.enc(np.ones(N) / np.sqrt(N))
            ts.fidelity(s_, t_), ts.KL(s_, t_, bases=["X" * n, "Z" * n]), ts.NLL(s_, sp_)
        st, how = gen.make_state_used(rng, kind, am, ph, warm)
        ctx.count("states_used_before_with_other_parameters")
        ctx.seen("parameter_change_idioms", how)
    else:
        st = gen.make_state(kind, am, ph)
    sp = st.generate_hilbert_space()
    units = nh + (na if kind == "mixed" else 0)
    tol = 2 * gen.tau_sp(n, am, ph) + 1e-10
    tags = {"state": kind}
    wit = {"am": gen.small_params(am), "ph": gen.small_params(ph), "bases": blist}
    rho_n = R.as_rho(kd, dense) / Zr
    before = monitors.params_digest(st)

    def typed(what, val, extra=None):
        ctx.count("type_checks")
        if not is_plain_number(val):
            ctx.violation("not-a-plain-number", f"{what} returned {type(val).__module__}.{type(val).__name__} "
                          f"({str(val)[:60]}), not a plain real number", tags=dict(tags, metric=what.split("(")[0], **(extra or {})))
            try:
                return float(val)
            except Exception:  # noqa: BLE001
                return None
        return float(val)

    positive_with_bases = kind == "positive"

    # ------------------------------------------------------------ fidelity
    for cls in (["generic", "real", "sparse"] if kind != "mixed" else ["full", "rank1", "deficient"]):
        if kind != "mixed":
            t = pure_target(rng, N, cls)
            tt = gen.enc(t)
            want = float(np.abs(np.vdot(t, dense)) ** 2 / Zr)
            ftol = tol
        else:
            t = mixed_target(rng, N, cls)
            tt = gen.enc(t)
            want = R.uhlmann(rho_n, t)
            ftol = 1e-6
        keep = tt.clone()
        f = typed("fidelity", ctx.lib("fidelity", ts.fidelity, st, tt, space=sp, tags=dict(tags, metric="fidelity")))
        f2 = typed("fidelity(no space)", ctx.lib("fidelity", ts.fidelity, st, tt, tags=dict(tags, metric="fidelity")))
        ctx.count("fidelity_values_compared", 2)
        for v in (f, f2):
            if v is None:
                continue
            if not abs(v - want) <= ftol * (1 + abs(want)):
                ctx.violation("fidelity-value", f"fidelity ({cls} target, {kind}) = {v!r}, reference {want!r}", tags=dict(tags, metric="fidelity"), witness=wit)
            if not (-1e-9 <= v <= 1 + 1e-9):
                ctx.violation("fidelity-range", f"fidelity = {v!r} outside [0,1]", tags=dict(tags, metric="fidelity"), witness=wit)
        with warnings.catch_warnings():
            warnings.simplefilter("ignore")
            kwn = "target_rho" if kind == "mixed" else "target_psi"
            f3 = ctx.lib("fidelity(deprecated kwarg)", ts.fidelity, st, space=sp, tags=dict(tags, metric="fidelity"), **{kwn: tt})
        if f is not None and abs(float(f3) - f) > 1e-13:
            ctx.violation("deprecated-kwarg-differs", f"fidelity({kwn}=...) = {f3!r} != {f!r}", tags=dict(tags, metric="fidelity"))
        if kind != "mixed":
            phi = float(rng.uniform(0, 2 * np.pi))
            fp = ctx.lib("fidelity(global phase)", ts.fidelity, st, gen.enc(t * np.exp(1j * phi)), space=sp, tags=dict(tags, metric="fidelity"))
            ctx.count("phase_invariance_checks")
            if f is not None and abs(float(fp) - f) > 1e-12:
                ctx.violation("fidelity-phase-dependence", f"fidelity changes under a global phase of the target: {f!r} -> {float(fp)!r}",
                              tags=dict(tags, metric="fidelity"), witness=wit)
        if not torch.equal(tt, keep):
            ctx.violation("target-modified", "fidelity modified the target", tags=tags)
    # against the model's own state
    if kind != "mixed":
        own = gen.enc(gen.dec(st.psi(sp)) / np.sqrt(float(st.normalization(sp))))
    else:
        own = gen.enc(gen.dec(st.rho(sp, sp)) / float(st.normalization(sp)))
    fo = typed("fidelity(own)", ctx.lib("fidelity(own state)", ts.fidelity, st, own, space=sp, tags=dict(tags, metric="fidelity")))
    ctx.count("self_fidelity_checks")
    if fo is not None and abs(fo - 1) > (1e-9 if kind != "mixed" else 1e-6):
        ctx.violation("self-fidelity", f"fidelity against the model's own state = {fo!r}", tags=dict(tags, metric="fidelity"), witness=wit)

    # ------------------------------------------------------------ KL
    if kind != "mixed":
        t = pure_target(rng, N, ["generic", "real", "sparse"][case["rep"] % 3])
        tt = gen.enc(t)
        Pt = {b: np.abs(R.basis_unitary(b) @ t) ** 2 for b in set(blist_u) | {"Z" * n}}
        tdict = {b: gen.enc(R.basis_unitary(b) @ t) for b in blist_u}
    else:
        t = mixed_target(rng, N, ["full", "rank1", "deficient"][case["rep"] % 3])
        tt = gen.enc(t)
        Pt = {b: np.real(np.diag(R.basis_unitary(b) @ t @ R.basis_unitary(b).conj().T)) for b in set(blist_u) | {"Z" * n}}
        tdict = {b: gen.enc(R.basis_unitary(b) @ t @ R.basis_unitary(b).conj().T) for b in blist_u}
    Pm = {b: R.born(kd, dense, b)[0] / Zr for b in set(blist_u) | {"Z" * n}}

    def kl_check(what, val, want, extra):
        v = typed(what, val, extra)
        ctx.count("kl_values_compared")
        if v is None:
            return
        if not abs(v - want) <= tol * (1 + abs(want)) * 10:
            ctx.violation("kl-value", f"{what} on a {kind} state = {v!r}, reference {want!r} (bases {extra.get('bases')})",
                          tags=dict(tags, metric="KL", **{k: x for k, x in extra.items() if k != "bases"}), witness=wit)
        if v < -1e-10:
            ctx.violation("kl-negative", f"{what} = {v!r} < 0", tags=dict(tags, metric="KL", **{k: x for k, x in extra.items() if k != "bases"}), witness=wit)

    # bases = None, tensor target
    ctx.count("kl_bases_none_calls")
    kl_check("KL(bases=None)", ctx.lib("KL", ts.KL, st, tt, space=sp, tags=dict(tags, metric="KL", path="bases_none")),
             kl_ref(Pt["Z" * n], Pm["Z" * n]), {"path": "bases_none"})
    kl_check("KL(bases=None, no space)", ctx.lib("KL", ts.KL, st, tt, tags=dict(tags, metric="KL", path="bases_none")),
             kl_ref(Pt["Z" * n], Pm["Z" * n]), {"path": "bases_none"})
    want_list = float(np.mean([kl_ref(Pt[b], Pm[b]) for b in blist]))
    want_u = float(np.mean([kl_ref(Pt[b], Pm[b]) for b in blist_u]))
    exl = {"path": "bases_list", "with_bases": True, "bases": blist}
    try:
        bform = [blist, tuple(blist), np.array(blist)][case["rep"] % 3]
        ctx.seen("bases_argument_forms", type(bform).__name__)
        kl_check("KL(bases=list)", ctx.lib("KL", ts.KL, st, tt, space=sp, bases=bform, tags=dict(tags, metric="KL", path="bases_list", with_bases=True)),
                 want_list, exl)
        ctx.count("kl_dict_target_calls")
        kl_check("KL(dict target)", ctx.lib("KL", ts.KL, st, tdict, space=sp, tags=dict(tags, metric="KL", path="dict", with_bases=True)),
                 want_u, {"path": "dict", "with_bases": True, "bases": blist_u})
        kl_check("KL(dict target, bases=keys)", ctx.lib("KL", ts.KL, st, tdict, space=sp, bases=list(reversed(blist_u)),
                                                       tags=dict(tags, metric="KL", path="dict", with_bases=True)),
                 want_u, {"path": "dict", "with_bases": True, "bases": blist_u})
        with warnings.catch_warnings():
            warnings.simplefilter("ignore")
            kwn = "target_rho" if kind == "mixed" else "target_psi"
            kd3 = ctx.lib("KL(deprecated kwarg)", ts.KL, st, space=sp, bases=blist, tags=dict(tags, metric="KL", with_bases=True), **{kwn: tt})
        kl_check("KL(deprecated kwarg)", kd3, want_list, exl)
    except Exception as e:  # noqa: BLE001
        if type(e).__name__ != "LibraryError":
            raise
    # against the model's own state: zero in every basis
    ctx.count("self_kl_checks")
    try:
        own_b = [b for b in allb if True][: 9] if n <= 2 else blist_u + ["Y" * n, "XY" + "Z" * (n - 2)]
        ko = typed("KL(own)", ctx.lib("KL(own state)", ts.KL, st, own, space=sp, bases=own_b,
                                      tags=dict(tags, metric="KL", path="own", with_bases=True)), {"path": "own", "with_bases": True})
        if ko is not None and abs(ko) > 1e-9:
            ctx.violation("self-kl", f"KL against the model's own state over bases {own_b} = {ko!r}", tags=dict(tags, metric="KL", path="own"), witness=wit)
    except Exception as e:  # noqa: BLE001
        if type(e).__name__ != "LibraryError":
            raise
    ko = typed("KL(own, bases=None)", ctx.lib("KL(own state)", ts.KL, st, own, space=sp, tags=dict(tags, metric="KL", path="bases_none")),
               {"path": "bases_none"})
    if ko is not None and abs(ko) > 1e-9:
        ctx.violation("self-kl", f"KL(bases=None) against the model's own state = {ko!r}", tags=dict(tags, metric="KL", path="bases_none"), witness=wit)

    # ------------------------------------------------------------ NLL
    M = int(rng.integers(1, 10))
    rows = R.space(n)[rng.integers(0, N, size=M)]
    samples = torch.tensor(rows, dtype=torch.double)
    skeep = samples.clone()
    nl = typed("NLL", ctx.lib("NLL", ts.NLL, st, samples, space=sp, tags=dict(tags, metric="NLL", path="no_bases")), {"path": "no_bases"})
    wantn = -float(np.mean([np.log(Pm["Z" * n][R.index_of(r)]) for r in rows]))
    ctx.count("nll_values_compared")
    if nl is not None and not abs(nl - wantn) <= tol * (1 + abs(wantn)) * 10:
        ctx.violation("nll-value", f"NLL(no bases) = {nl!r}, reference {wantn!r}", tags=dict(tags, metric="NLL", path="no_bases"), witness=wit)
    sb = np.array([list(blist[i % len(blist)]) for i in range(M)], dtype=str).reshape(M, n)
    if M > 1:
        sb[rng.integers(0, M)] = "Z"
    wantb = -float(np.mean([np.log(R.born(kd, dense, "".join(b))[0][R.index_of(r)] / Zr) for r, b in zip(rows, sb)]))
    ctx.count("nll_with_bases_calls")
    try:
        for spc in (sp, None):
            nlb = typed("NLL(sample_bases)", ctx.lib("NLL", ts.NLL, st, samples, space=spc, sample_bases=sb,
                                                     tags=dict(tags, metric="NLL", path="sample_bases", with_bases=True)),
                        {"path": "sample_bases", "with_bases": True})
            ctx.count("nll_values_compared")
            if nlb is not None and not abs(nlb - wantb) <= tol * (1 + abs(wantb)) * 10:
                ctx.violation("nll-value", f"NLL(sample_bases) on a {kind} state = {nlb!r}, reference {wantb!r}",
                              tags=dict(tags, metric="NLL", path="sample_bases"), witness=wit)
    except Exception as e:  # noqa: BLE001
        if type(e).__name__ != "LibraryError":
            raise
    if not torch.equal(samples, skeep):
        ctx.violation("samples-modified", "NLL modified the samples", tags=tags)
    if monitors.params_digest(st) != before:
        ctx.violation("parameters-modified", "a metric changed the model parameters", tags=tags)
    hasY = any("Y" in b for b in blist)
    if hasY and gen.all_nonzero(am, None if ph is None else {k: v for k, v in ph.items() if k != "d"}):
        ctx.mark_nontrivial(gen.model_digest(kind, am, ph, extra=[blist, np.round(t, 6)]))
    ctx.seen("kind_n", (kind, n))
    ctx.seen("num_bases", len(blist))
    gen.scribble_spaces(st, st.num_visible)  # tensors handed out are the caller's: nothing later may depend on them
    ctx.sample({"case": case, "bases": blist, "am": gen.small_params(am), "kl_reference": want_list, "nll_reference": wantb})
