"""C09 - the swap estimator measures the purity of the reduced state.

Events: SWAP(A).apply(state, [s1; s2]) on every ordered pair of basis states, on
larger batches of pairwise-distinct rows; L3a + digest on the batch.
Oracle: sum p(s1)p(s2) value = Tr(rho_A^2) with rho_A the partial trace of the
independent reference state; pairing rule via the library's own two-row values.
"""
import itertools

import numpy as np
import torch

from vlib import gen, monitors, refmodel as R
from vlib.runner import np_rng

ID = "C09"
RULE = ("one case = one model (three state types, num_visible 1..4) on which SWAP(A) is evaluated for every subset A of "
        "sites (given as int, list, integer ndarray, LongTensor; empty set as empty list / empty integer array) on every "
        "ordered pair of basis states. Non-trivial: all parameters non-zero; distinct by sha256 of parameters.")
REQUIRED = ["states_used_before_with_other_parameters", "regions_checked", "ordered_pairs_evaluated", "pairing_checks", "protected_write_ops_inspected",
            "region_formats_int", "region_formats_list", "region_formats_ndarray", "region_formats_tensor", "empty_region_checks"]
ANCHOR_FILES = ["qucumber/observables/entanglement.py"]
REACH = [
    ("qucumber/observables/entanglement.py", r"_s = s1\[:, A\]\.clone\(\)", "swap"),
    ("qucumber/observables/entanglement.py", r"samples2 = torch\.roll\(samples1, 1, 0\)", "SWAP.apply pairing"),
]
EXHAUSTIVE_NOTE = "every ordered pair of basis states is enumerated for each region; every subset A of sites for n<=3 (quick) / n<=4 (thorough); quick samples 6 regions at n=4"
ASSUMPTIONS = ["reference reduced density matrix by reshape + partial trace of the independent reference state"]
MIN_PER_WORKER = 2
TAU = 3e-9


def cases(tier, seed):
    reps = 4 if tier == "quick" else 30
    out = []
    for kind in gen.KINDS:
        for nv in range(1, 5):
            for r in range(reps):
                out.append({"kind": kind, "nv": nv, "rep": r, "seed": seed})
    return out


def region_forms(A, rng):
    forms = [("list", list(A)), ("ndarray", np.array(A, dtype=np.int64)), ("tensor", torch.tensor(A, dtype=torch.long))]
    if len(A) == 1:
        forms.append(("int", int(A[0])))
    if len(A) == 0:
        forms = [("list", []), ("ndarray", np.array([], dtype=np.int64)), ("tensor", torch.tensor([], dtype=torch.long))]
    return forms


def run_case(case, ctx):
    from qucumber.observables import SWAP

    kind, nv = case["kind"], case["nv"]
    rng = np_rng(ID, case["seed"], kind, nv, case["rep"])
    nh = int(rng.integers(1, 4))
    na = int(rng.integers(1, 4))
    # scale classes: moderate / up to 3 / the full legitimate range (rare, strongly coupled basis states: unnormalised
    # probabilities far below any absolute epsilon)
    sc = [gen.SCALES_MODERATE, [0.5, 1.0, 3.0], gen.SCALES_FULL, [10.0, 20.0, 30.0]][case["rep"] % 4]
    am, ph = gen.draw_model(rng, kind, nv, nh, na, scales=sc, max_energy=300.0, phase_aux_bias=(case["rep"] % 3 == 1))
    ctx.seen("scale_classes", case["rep"] % 4)
    if case["rep"] % 2:
        def warm(s_):
            sp_ = s_.generate_hilbert_space()
            SWAP([0]).apply(s_, sp_), SWAP([]).apply(s_, sp_[:2])
        st, how = gen.make_state_used(rng, kind, am, ph, warm)
        ctx.count("states_used_before_with_other_parameters")
        ctx.seen("parameter_change_idioms", how)
    else:
        st = gen.make_state(kind, am, ph)
    V = R.space(nv)
    N = len(V)
    kd, dense = R.state_dense(kind, am, ph, nv)
    rho = R.as_rho(kd, dense)
    rho = rho / np.real(np.trace(rho))
    p = np.real(np.diag(rho))
    units = nh + (na if kind == "mixed" else 0)
    tau = 4 * gen.tau_sp(nv, am, ph) + 1e-11
    tags = {"state": kind}
    wit = {"am": gen.small_params(am), "ph": gen.small_params(ph)}
    pairs = [(i, j) for i in range(N) for j in range(N)]
    first = torch.tensor(V[[i for i, _ in pairs]], dtype=torch.double)
    second = torch.tensor(V[[j for _, j in pairs]], dtype=torch.double)
    s2_by_region = {}
    regions = [list(A) for r in range(nv + 1) for A in itertools.combinations(range(nv), r)]
    if ctx.tier == "quick" and nv == 4:
        mid = [A for A in regions if 0 < len(A) < nv]
        keepi = rng.choice(len(mid), size=4, replace=False)
        regions = [[], list(range(nv))] + [mid[i] for i in sorted(keepi)]
        ctx.count("models_with_sampled_regions")
    else:
        ctx.count("models_with_all_regions")
    for A in regions:
        for _once in (0,):
            r = len(A)
            forms = region_forms(A, rng)
            fname, Af = forms[int(rng.integers(0, len(forms)))] if r not in (0, 1) else forms[(case["rep"] + len(s2_by_region)) % len(forms)]
            ctx.count("region_formats_" + fname)
            ob = ctx.lib("SWAP(A)", SWAP, Af, tags=tags)
            g = np.zeros((N, N))
            g2 = np.zeros((N, N))
            bad_shape = False
            # every ordered pair as a two-row batch
            for (i, j), a, b in zip(pairs, first, second):
                batch = torch.stack([a, b]).clone()
                keep = batch.clone()
                mon = None
                if (i + j) % 5 == 0:
                    mon = monitors.DispatchMonitor()
                    mon.protect("batch", batch)
                    mon.__enter__()
                try:
                    out = ctx.lib("SWAP.apply", ob.apply, st, batch, tags=dict(tags, region_format=fname))
                finally:
                    if mon:
                        mon.__exit__(None, None, None)
                if mon:
                    ctx.count("protected_write_ops_inspected", mon.write_ops)
                    for w in mon.writes:
                        ctx.violation("protected-write", f"SWAP.apply wrote to the caller's batch via {w['op']}", tags=tags, witness=w)
                if not torch.equal(batch, keep):
                    ctx.violation("batch-modified", f"SWAP({Af!r}).apply modified the batch", tags=tags)
                if not isinstance(out, torch.Tensor) or tuple(out.shape) != (2,):
                    ctx.violation("shape", f"SWAP.apply on a two-row batch returned shape {tuple(getattr(out, 'shape', ()))}", tags=tags)
                    bad_shape = True
                    break
                g[i, j] = float(out[0])
                g2[j, i] = float(out[1])
                ctx.count("ordered_pairs_evaluated")
            if bad_shape:
                continue
            rA = R.reduced(rho, nv, A)
            want = float(np.real(np.trace(rA @ rA)))
            w2 = p[:, None] * p[None, :]
            ctx.count("regions_checked")
            if not A:
                ctx.count("empty_region_checks")
            for nm, G in (("first row", g), ("second row", g2)):
                got = float(np.sum(w2 * G))
                scale = float(np.sum(w2 * np.abs(G)))
                if not abs(got - want) <= tau * max(scale, want):
                    ctx.violation("purity-mismatch", f"SWAP(A={A}, given as {fname}) on a {kind} state (n={nv}), {nm}: pair-average of the "
                                  f"estimator {got!r}, Tr(rho_A^2) = {want!r} (|diff| {abs(got-want):.3e})",
                                  tags=dict(tags, region_size=len(A), region_format=fname), witness=wit)
                    break
            s2_by_region[tuple(A)] = -np.log(max(float(np.sum(w2 * g)), 1e-300))
            # pairing rule on a larger batch of pairwise-distinct rows
            if N >= 4:
                B = int(rng.integers(3, min(N, 7) + 1))
                rows = rng.choice(N, size=B, replace=False)
                batch, mform = gen.memory_form(torch.tensor(V[rows], dtype=torch.double), rng)
                ctx.seen("batch_memory_forms", mform)
                keep = batch.clone()
                out = ctx.lib("SWAP.apply(batch)", ob.apply, st, batch, tags=tags)
                ctx.count("pairing_checks")
                if tuple(out.shape) != (B,):
                    ctx.violation("shape", f"SWAP.apply on {B} rows returned shape {tuple(out.shape)}", tags=tags)
                else:
                    o = out.numpy()
                    prevs = np.array([g[rows[t], rows[(t - 1) % B]] for t in range(B)])
                    nexts = np.array([g[rows[t], rows[(t + 1) % B]] for t in range(B)])
                    tolp = 1e-9 * (1 + np.abs(o))
                    okp, okn = np.all(np.abs(o - prevs) <= tolp), np.all(np.abs(o - nexts) <= tolp)
                    if not (okp or okn):
                        ctx.violation("pairing", f"SWAP(A={A}).apply on {B} distinct rows: the values are not those of each sample paired with "
                                      f"one cyclic neighbour (got {np.round(o, 6).tolist()}, with previous {np.round(prevs, 6).tolist()}, "
                                      f"with next {np.round(nexts, 6).tolist()})", tags=tags, witness=wit)
                if not torch.equal(batch, keep):
                    ctx.violation("batch-modified", "SWAP.apply modified a larger batch", tags=tags)
                # history: the same SWAP object on SMALLER batches after the larger one (a pair, then a single sample, which
                # is its own partner): the values are those of the rows handed over now
                i_, j_ = int(rng.integers(0, N)), int(rng.integers(0, N))
                o2 = ctx.lib("SWAP.apply(pair after a larger batch)", ob.apply, st, torch.tensor(V[[i_, j_]], dtype=torch.double), tags=tags)
                o1 = ctx.lib("SWAP.apply(single row after a larger batch)", ob.apply, st, torch.tensor(V[[j_]], dtype=torch.double), tags=tags)
                ctx.count("shrinking_batch_checks")
                if tuple(o2.shape) != (2,) or tuple(o1.shape) != (1,) or abs(float(o2[0]) - g[i_, j_]) > 1e-9 * (1 + abs(g[i_, j_])) \
                        or abs(float(o2[1]) - g2[j_, i_]) > 1e-9 * (1 + abs(g2[j_, i_])) or abs(float(o1[0]) - g[j_, j_]) > 1e-9 * (1 + abs(g[j_, j_])):
                    ctx.violation("stale-batch-state", f"SWAP(A={A}) re-used on a smaller batch after a larger one: pair ({i_},{j_}) gives "
                                  f"{o2.tolist()} (fresh: {g[i_, j_]!r}, {g2[j_, i_]!r}), single row {j_} gives {o1.tolist()} (fresh: {g[j_, j_]!r})",
                                  tags=tags, witness=wit)
    # derived entropies (evidence; implied by the purity check against the reference)
    if kd == "pure" and s2_by_region:
        full = tuple(range(nv))
        ctx.seen("S2_full_pure_decade", int(np.floor(np.log10(abs(s2_by_region.get(full, 0.0)) + 1e-16))))
    if gen.all_nonzero(am, None if ph is None else {k: v for k, v in ph.items() if k != "d"}):
        ctx.mark_nontrivial(gen.model_digest(kind, am, ph))
    ctx.seen("kind_n", (kind, nv))
    ctx.sample({"case": case, "am": gen.small_params(am),
                "S2": {str(list(k)): round(float(v), 6) for k, v in list(s2_by_region.items())[:6]}})
