"""C20 - model construction and reset honour their documented contracts.

Events: after each step of a sequence construct(sizes | module=) -> [train] ->
reinitialize_parameters -> ...: id / storage pointer / shape / values of every
parameter of every network; rbm_ph.aux_bias at every batch_end of every training
run (recorder callback); exception + digests for fit without bases.
"""
import os

import numpy as np
import torch

from vlib import gen, monitors, refmodel as R, trainrec
from vlib.runner import np_rng

ID = "C20"
RULE = ("one case = one sequence (length <= 6) of construct (three state types x {sizes given, module given}; hidden/aux "
        "defaulted or explicit) / train (SGD, SGD+momentum+weight-decay, Adam, Adadelta) / reinitialise / fit-without-bases. "
        "Non-trivial: >= 3 operations of >= 2 kinds with non-default shapes; distinct by the operation sequence + sizes.")
REQUIRED = ["constructions_from_sizes", "constructions_from_module", "independence_probes", "reinitialisations",
            "fit_without_bases_rejections", "aux_bias_observations", "optimizers_seen_Adam", "optimizers_seen_SGD",
            "optimizers_seen_Adadelta", "optimizers_seen_SGDmomentum"]
ANCHOR_FILES = ["qucumber/nn_states/positive_wavefunction.py", "qucumber/nn_states/complex_wavefunction.py",
                "qucumber/nn_states/density_matrix.py"]
REACH = [
    ("qucumber/nn_states/positive_wavefunction.py", r"self\.rbm_am = module\.to\(device\)", "PositiveWaveFunction module branch"),
    ("qucumber/nn_states/complex_wavefunction.py", r"self\.rbm_am = module\.to\(self\.device\)", "ComplexWaveFunction module branch"),
    ("qucumber/nn_states/density_matrix.py", r"self\.rbm_am = module\.to\(self\.device\)", "DensityMatrix module branch"),
    ("qucumber/nn_states/complex_wavefunction.py", r"\"input_bases must be provided to train a ComplexWaveFunction!\"", "complex fit guard"),
    ("qucumber/nn_states/density_matrix.py", r"raise ValueError\(\"input_bases must be provided to train a DensityMatrix!\"\)", "mixed fit guard"),
    ("qucumber/nn_states/neural_state.py", r"getattr\(self, net\)\.initialize_parameters\(\)", "reinitialize_parameters"),
]
ASSUMPTIONS = ["independent random weights: two freshly drawn weight tensors are not bit-identical (probability 0)"]
MIN_PER_WORKER = 2
OPTS = ["SGD", "SGDmomentum", "Adam", "Adadelta"]


def cases(tier, seed):
    n = 72 if tier == "quick" else 15000
    return [{"rep": i, "seed": seed} for i in range(n)]


def storages(rbm):
    return {n: p.data.untyped_storage().data_ptr() for n, p in rbm.named_parameters()}


def check_shapes(ctx, st, kind, nv, nh, na, tags, what):
    exp = {"weights": (nh, nv), "visible_bias": (nv,), "hidden_bias": (nh,)} if kind != "mixed" else \
        {"weights_W": (nh, nv), "weights_U": (na, nv), "visible_bias": (nv,), "hidden_bias": (nh,), "aux_bias": (na,)}
    for net in st.networks:
        got = {n: tuple(p.shape) for n, p in getattr(st, net).named_parameters()}
        if got != exp:
            ctx.violation("shapes", f"{what}: {net} parameter shapes {got}, requested {exp}", tags=tags)
            return False
    if (st.num_visible, st.num_hidden) != (nv, nh) or (kind == "mixed" and st.num_aux != na):
        ctx.violation("shapes", f"{what}: reported sizes ({st.num_visible},{st.num_hidden},{getattr(st, 'num_aux', None)}) vs ({nv},{nh},{na})", tags=tags)
        return False
    return True


def run_case(case, ctx):
    from qucumber.nn_states import ComplexWaveFunction, DensityMatrix, PositiveWaveFunction
    from qucumber.rbm import BinaryRBM, PurificationRBM

    CLS = {"positive": PositiveWaveFunction, "complex": ComplexWaveFunction, "mixed": DensityMatrix}
    i = case["rep"]
    rng = np_rng(ID, case["seed"], i)
    kind = gen.KINDS[i % 3]
    via_module = (i // 3) % 2 == 1
    nv = int(rng.integers(1, 5))
    # which sizes are given: none (both default to num_visible) / both / only num_hidden / only num_aux
    dmode = (i // 6) % 4
    default_h = dmode == 0 or (dmode == 3 and kind != "mixed")
    nh = nv + int(rng.integers(1, 3))
    na = nv + int(rng.integers(2, 4))
    if default_h or dmode == 3:
        nh = nv
    if default_h or dmode == 2:
        na = nv
    partial = (not default_h) and dmode in (2, 3) and kind == "mixed"
    # sizes arrive as whatever integer type the caller's arithmetic produced (np.arange, array shapes, len())
    size_type = [int, np.int64, np.int32, np.intp][(i // 2) % 4]
    ctx.seen("size_argument_types", size_type.__name__)
    nv_, nh_, na_ = size_type(nv), size_type(nh), size_type(na)
    tags = {"state": kind, "via_module": via_module}
    ops = []
    import qucumber

    qucumber.set_random_seed(int(rng.integers(1, 2 ** 31 - 1)), cpu=True, gpu=False, quiet=True)
    # ------------------------------------------------------------------ construct
    if via_module:
        if kind == "mixed":
            if partial:
                module = PurificationRBM(nv_, num_hidden=nh_, gpu=False) if dmode == 2 else PurificationRBM(nv_, num_aux=na_, gpu=False)
                ctx.count("partially_defaulted_sizes")
            else:
                module = PurificationRBM(nv_, None if default_h else nh_, None if default_h else na_, zero_weights=bool(i % 4 == 3), gpu=False)
        else:
            # (also RBMs built with zero_weights=True and filled in by hand: how the module was built is no longer visible in a
            # state that is later reinitialised)
            module = BinaryRBM(nv_, None if default_h else nh_, zero_weights=bool(i % 4 == 3), gpu=False)
        for n_, p_ in module.named_parameters():  # non-zero biases so that "equal values" is informative
            p_.data.copy_(torch.tensor(gen._tensor(rng, tuple(p_.shape), 0.7)))
        if kind == "mixed":
            # the copy becomes the phase network, whose auxiliary bias is documented to be 0: supply a module that respects it
            module.aux_bias.data.zero_()
        before = {n: p.data.clone() for n, p in module.named_parameters()}
        ids = {n: id(p) for n, p in module.named_parameters()}
        if kind == "positive":
            st = ctx.lib("construct(module=)", CLS[kind], nv + 3, module=module, gpu=False, tags=tags)
        else:
            st = ctx.lib("construct(module=)", CLS[kind], nv + 3, module=module, tags=tags)
        ctx.count("constructions_from_module")
        ops.append("construct-module")
        if st.rbm_am is not module or {n: id(p) for n, p in st.rbm_am.named_parameters()} != ids:
            ctx.violation("module-not-used", "the state's amplitude network is not the supplied RBM (object / parameter identity)", tags=tags)
        if any(not torch.equal(p.data, before[n]) for n, p in st.rbm_am.named_parameters()):
            ctx.violation("module-values-changed", "construction changed the supplied RBM's parameters", tags=tags)
        check_shapes(ctx, st, kind, nv, nh, na, tags, "construct(module=)")
        if kind != "positive":
            ph = st.rbm_ph
            if ph is st.rbm_am:
                ctx.violation("phase-network-aliased", "the phase network IS the amplitude network", tags=tags)
            else:
                eq = all(torch.equal(p.data, before[n]) for n, p in ph.named_parameters())
                if not eq:
                    ctx.violation("phase-copy-values", "the phase network is not a copy of the supplied RBM", tags=tags)
                if set(storages(ph).values()) & set(storages(st.rbm_am).values()) or \
                        {id(p) for p in ph.parameters()} & {id(p) for p in st.rbm_am.parameters()}:
                    ctx.violation("phase-network-aliased", "phase and amplitude networks share parameter storage", tags=tags)
    else:
        args = (nv_,) if default_h else ((nv_, nh_, na_) if kind == "mixed" else (nv_, nh_))
        gpu_req = bool(i % 5 == 0)  # requesting the GPU on a CPU-only machine must fall back (with a warning), not fail
        import warnings as _w
        with _w.catch_warnings():
            _w.simplefilter("ignore")
            if partial:
                kw_ = {"num_hidden": nh_} if dmode == 2 else {"num_aux": na_}
                st = ctx.lib("construct(sizes)", CLS[kind], nv_, gpu=gpu_req, tags=dict(tags, gpu_requested=gpu_req, sizes_given=",".join(kw_)), **kw_)
                ctx.count("partially_defaulted_sizes")
            else:
                st = ctx.lib("construct(sizes)", CLS[kind], *args, gpu=gpu_req, tags=dict(tags, gpu_requested=gpu_req))
        if gpu_req:
            ctx.count("constructions_requesting_gpu_on_cpu")
            if str(st.device) != "cpu" or any(str(p_.device) != "cpu" for p_ in st.rbm_am.parameters()):
                ctx.violation("device", f"state built with gpu=True on a CPU-only machine reports device {st.device}", tags=tags)
        ctx.count("constructions_from_sizes")
        ops.append("construct-sizes")
        if check_shapes(ctx, st, kind, nv, nh, na, tags, "construct(sizes)"):
            for net in st.networks:
                for n_, p_ in getattr(st, net).named_parameters():
                    if "bias" in n_ and bool((p_.data != 0).any()):
                        ctx.violation("initial-bias-nonzero", f"{net}.{n_} is not zero after construction from sizes", tags=tags)
                    if "weights" in n_ and (not bool((p_.data != 0).all()) or not bool(torch.isfinite(p_.data).all())):
                        ctx.violation("initial-weights-degenerate", f"{net}.{n_} has zero / non-finite entries after construction", tags=tags)
            if kind != "positive":
                wa = [p.data for n_, p in st.rbm_am.named_parameters() if "weights" in n_]
                wp = [p.data for n_, p in st.rbm_ph.named_parameters() if "weights" in n_]
                if any(torch.equal(a, b) for a, b in zip(wa, wp)):
                    ctx.violation("networks-not-independent", "amplitude and phase networks were initialised with identical weights", tags=tags)
                if st.rbm_ph is st.rbm_am or set(storages(st.rbm_ph).values()) & set(storages(st.rbm_am).values()):
                    ctx.violation("phase-network-aliased", "phase and amplitude networks share storage", tags=tags)

    # lists handed out belong to the caller: editing what `networks` returned changes nothing for this or any other state
    got_names = st.networks
    if isinstance(got_names, list) and i % 2 == 0:
        got_names.reverse()
        got_names.append("not-a-network")
        ctx.count("returned_network_lists_edited")

    def probe():
        """changing one network never changes the other (both directions)"""
        if kind == "positive":
            return
        ctx.count("independence_probes")
        for src, dst in (("rbm_am", "rbm_ph"), ("rbm_ph", "rbm_am")):
            d0 = monitors.digest({n: p.data for n, p in getattr(st, dst).named_parameters()})
            saved = {n: p.data.clone() for n, p in getattr(st, src).named_parameters()}
            for n_, p_ in getattr(st, src).named_parameters():
                p_.data.add_(0.125)
            if monitors.digest({n: p.data for n, p in getattr(st, dst).named_parameters()}) != d0:
                ctx.violation("networks-coupled", f"writing to {src} changed {dst}", tags=tags)
            for n_, p_ in getattr(st, src).named_parameters():
                p_.data.copy_(saved[n_])

    probe()
    # ------------------------------------------------------------------ further operations
    nops = int(rng.integers(2, 6))
    for step in range(nops):
        op = rng.choice(["train", "reinit", "nobases", "train"])
        if op == "reinit":
            shapes0 = {k: tuple(v.shape) for k, v in monitors.params_of(st).items()}
            vals0 = monitors.params_snapshot(st)
            ctx.lib("reinitialize_parameters", st.reinitialize_parameters, tags=tags)
            ctx.count("reinitialisations")
            ops.append("reinit")
            now = monitors.params_of(st)
            if {k: tuple(v.shape) for k, v in now.items()} != shapes0:
                ctx.violation("reinit-shapes", "reinitialize_parameters changed parameter shapes", tags=tags)
            else:
                for k, v in now.items():
                    # "redraws all networks' parameters": the weights are random again (no zero / repeated entries), biases zero
                    if "weights" in k and (not bool((v.data != 0).all()) or not bool(torch.isfinite(v.data).all())):
                        ctx.violation("reinit-not-redrawn", f"{k} has zero / non-finite entries after reinitialize_parameters (not redrawn at random)",
                                      tags=dict(tags, net=k.split('.')[0], param=k.split('.')[1], zeros=True))
                    # every parameter that carried information (non-zero somewhere) must have been redrawn / reset
                    if bool((vals0[k] != 0).any()) and torch.equal(v.data, vals0[k]):
                        ctx.violation("reinit-not-redrawn", f"{k} kept its previous value {vals0[k].reshape(-1)[:3].tolist()} after "
                                      "reinitialize_parameters", tags=dict(tags, net=k.split('.')[0], param=k.split('.')[1]))
                    ctx.count("reinit_parameters_checked")
            if via_module and st.rbm_am is not None and kind != "positive":
                pass
            probe()
        elif op == "nobases":
            if kind == "positive":
                continue
            log = trainrec.Log()
            rec = trainrec.recorder_callback(log)
            d0 = monitors.params_digest(st)
            data = torch.tensor(R.space(nv)[rng.integers(0, 2 ** nv, size=4)], dtype=torch.double)
            # call forms: ordinary / nothing to train (epochs=0, starting_epoch beyond epochs) / keyword None; "before anything
            # changes" covers the callbacks, the random stream and files a saver would write
            form = int(rng.integers(0, 4))
            kw_nb = [dict(epochs=2), dict(epochs=0), dict(epochs=2, starting_epoch=5), dict(epochs=2, input_bases=None)][form]
            ctx.seen("refused_fit_call_forms", ["epochs=2", "epochs=0", "starting_epoch>epochs", "input_bases=None"][form])
            rng_before = torch.get_rng_state().clone()
            import tempfile as _tf, shutil as _sh
            from qucumber.callbacks import ModelSaver as _MS

            sv_dir = _tf.mkdtemp(prefix="verif-c20-", dir="/var/tmp")
            try:
                saver = _MS(1, sv_dir, "ep_{}.pt", save_initial=True)
                if ctx.must_raise("fit(no input_bases)", ValueError, st.fit, data, pos_batch_size=2, callbacks=[rec, saver], tags=tags, **kw_nb):
                    ctx.count("fit_without_bases_rejections")
                written = sorted(os.listdir(sv_dir))
            finally:
                _sh.rmtree(sv_dir, ignore_errors=True)
            if written or not torch.equal(torch.get_rng_state(), rng_before):
                ctx.violation("refused-fit-had-effects", f"fit without bases was refused only after side effects: files written {written}, "
                              f"random stream advanced: {not torch.equal(torch.get_rng_state(), rng_before)}", tags=tags)
            if len(log) or monitors.params_digest(st) != d0:
                ctx.violation("refused-fit-had-effects", f"fit without bases emitted {len(log)} events / changed parameters "
                              f"({monitors.params_digest(st) != d0}) before refusing", tags=tags)
            ops.append("nobases")
        else:
            optn = OPTS[int(rng.integers(0, len(OPTS)))]
            opt, oargs = {"SGD": (torch.optim.SGD, {}), "SGDmomentum": (torch.optim.SGD, {"momentum": 0.9, "weight_decay": 0.01}),
                          "Adam": (torch.optim.Adam, {}), "Adadelta": (torch.optim.Adadelta, {})}[optn]
            ctx.count("optimizers_seen_" + optn)
            data = torch.tensor(R.space(nv)[rng.integers(0, 2 ** nv, size=6)], dtype=torch.double)
            kw = {}
            if kind != "positive":
                b = gen.random_bases(rng, 6, nv, p_z=0.3)
                b[0] = "Z"
                kw["input_bases"] = b
            log = trainrec.Log()

            def watch(e, s):
                if e["event"] == "batch_end" and hasattr(s, "rbm_ph") and hasattr(s.rbm_ph, "aux_bias"):
                    ab = s.rbm_ph.aux_bias.data
                    ctx.count("aux_bias_observations")
                    if bool((ab != 0).any()):
                        ctx.violation("phase-aux-bias-nonzero", f"phase network auxiliary bias = {ab.tolist()} after a batch with {optn}",
                                      tags=dict(tags, optimizer=optn))

            rec = trainrec.recorder_callback(log, digest_params=False, extra=watch)
            ctx.lib("fit", st.fit, data, epochs=2, pos_batch_size=3, lr=0.05, callbacks=[rec], optimizer=opt, optimizer_args=oargs,
                    tags=dict(tags, optimizer=optn), **kw)
            if kind != "mixed":
                ctx.count("aux_bias_observations", 0)
            ops.append("train-" + optn)
            if via_module and st.rbm_am is not module:
                ctx.violation("module-not-used", "after training the amplitude network is no longer the supplied RBM", tags=tags)
            probe()
    if len(ops) >= 3 and len({o.split("-")[0] for o in ops}) >= 2 and not default_h:
        ctx.mark_nontrivial(monitors.digest([kind, via_module, nv, nh, na, ops]))
    ctx.seen("construction", (kind, via_module, default_h))
    ctx.sample({"case": case, "kind": kind, "via_module": via_module, "sizes": [nv, nh, na], "ops": ops})
