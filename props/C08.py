"""C08 - observable estimators are unbiased for the operator they name.

Events: Observable.apply(state, batch) for SigmaX/Y/Z (absolute False/True) and
NeighbourInteraction(periodic, c); L3a write sanitizer + digest on the samples.
Oracle: sum_sigma p(sigma)/Z * O_loc(sigma) = Tr(rho_ref O)/Tr(rho_ref) with dense
operators and the independent reference state.
"""
import numpy as np
import torch

from vlib import gen, monitors, refmodel as R
from vlib.runner import np_rng

ID = "C08"
RULE = ("one case = one model (three state types, num_visible 1..5, all biases non-zero, non-trivial phase network) on which "
        "every built-in observable (SigmaX/Y/Z with absolute False/True, NeighbourInteraction for c=1..n and both boundary "
        "conditions) is evaluated on the full basis (exact weighting), on a shuffled batch with repeats and on a single "
        "row. Non-trivial: all parameters non-zero; distinct by sha256 of parameters.")
REQUIRED = ["in_place_refill_checks", "states_used_before_with_other_parameters", "expectations_compared", "absolute_checks", "batch_consistency_checks", "protected_write_ops_inspected",
            "mixed_state_expectations", "pure_state_expectations"]
ANCHOR_FILES = ["qucumber/observables/pauli.py", "qucumber/observables/interactions.py", "qucumber/observables/utils.py"]
REACH = [
    ("qucumber/observables/pauli.py", r"numer = cplx\.elementwise_mult\(numer, coeff\)", "SigmaY.apply"),
    ("qucumber/observables/pauli.py", r"res = to_pm1\(samples\.mean\(1\)\)", "SigmaZ.apply"),
    ("qucumber/observables/interactions.py", r"perm_indices = ", "NeighbourInteraction periodic"),
    ("qucumber/observables/interactions.py", r"interaction_terms = samples\[:, : -self\.c\]", "NeighbourInteraction open"),
    ("qucumber/nn_states/density_matrix.py", r"return self\.rho\(vp, v, expand=False\)", "mixed importance numerator"),
    ("qucumber/nn_states/wavefunction.py", r"return self\.psi\(vp\)", "pure importance numerator"),
]
ASSUMPTIONS = ["operator conventions: Z=diag(-1,+1) (0/1 -> -1/+1), magnetisations and interactions are per-site averages"]
MIN_PER_WORKER = 3
TAU = 3e-9


def cases(tier, seed):
    reps = 6 if tier == "quick" else 1500
    out = []
    for kind in gen.KINDS:
        for nv in range(1, 6):
            for r in range(reps):
                out.append({"kind": kind, "nv": nv, "rep": r, "seed": seed})
    return out


def run_case(case, ctx):
    from qucumber.observables import NeighbourInteraction, SigmaX, SigmaY, SigmaZ

    kind, nv = case["kind"], case["nv"]
    rng = np_rng(ID, case["seed"], kind, nv, case["rep"])
    nh = int(rng.integers(1, 5))
    na = int(rng.integers(1, 4))
    scales = [gen.SCALES_MODERATE, [0.5, 1.0, 3.0, 10.0], gen.SCALES_MODERATE, gen.SCALES_FULL][case["rep"] % 4]
    ctx.seen("scale_classes", case["rep"] % 4)
    am, ph = gen.draw_model(rng, kind, nv, nh, na, scales=scales, phase_aux_bias=(case["rep"] % 3 == 1))
    obs = []
    for ab in (False, True):
        obs += [("SigmaX", SigmaX(absolute=ab), R.magnetisation(R.SX, nv), ab),
                ("SigmaY", SigmaY(absolute=ab), R.magnetisation(R.SY, nv), ab),
                ("SigmaZ", SigmaZ(absolute=ab), R.magnetisation(R.SZ, nv), ab)]
    for c in range(1, nv + 1):
        for per in (False, True):
            obs.append((f"NeighbourInteraction(periodic={per},c={c})", NeighbourInteraction(periodic_bcs=per, c=c),
                        R.zz_interaction(nv, c, per), False))
    if case["rep"] % 2:
        def warm(s_):
            # the SAME observable instances are first applied to a state with other parameters
            sp_ = s_.generate_hilbert_space()
            for _, o_, _, _ in obs:
                o_.apply(s_, sp_)
        st, how = gen.make_state_used(rng, kind, am, ph, warm)
        ctx.count("states_used_before_with_other_parameters")
        ctx.seen("parameter_change_idioms", how)
    else:
        st = gen.make_state(kind, am, ph)
    V = R.space(nv)
    N = len(V)
    kd, dense = R.state_dense(kind, am, ph, nv)
    rho = R.as_rho(kd, dense)
    tr = float(np.real(np.trace(rho)))
    p = np.real(np.diag(rho)) / tr
    units = nh + (na if kind == "mixed" else 0)
    tau = 2 * gen.tau_sp(nv, am, ph) + 1e-11
    sp = torch.tensor(V, dtype=torch.double)
    tags = {"state": kind}
    wit = {"am": gen.small_params(am), "ph": gen.small_params(ph)}
    perm = rng.integers(0, N, size=min(2 * N, 12))
    shuffled = sp[perm].clone()
    single = sp[int(rng.integers(0, N))].clone().unsqueeze(0)
    # batches whose length coincides with the size of the real-pair axis (2) or of small internal axes (3)
    pperm, tperm = rng.integers(0, N, size=2), rng.integers(0, N, size=3)
    pair, triple = sp[pperm.tolist()].clone(), sp[tperm.tolist()].clone()
    # all rows distinct, in no particular order (a de-duplicated data set), held as a strided / column-major / sliced view
    dperm = rng.permutation(N)[:max(2, int(rng.integers(2, N + 1)))] if N > 1 else np.array([0])
    distinct, dform = gen.memory_form(sp[dperm.tolist()].clone(), rng)
    ctx.seen("batch_memory_forms", dform)
    plain = {}
    for name, ob, op, ab in obs:
        keep = sp.clone()
        mon = monitors.DispatchMonitor()
        mon.protect("samples", sp)
        for nm, p_ in monitors.params_of(st).items():
            mon.protect("param:" + nm, p_.data)
        with mon:
            val = ctx.lib(f"{name}.apply", ob.apply, st, sp, tags=dict(tags, obs=name.split("(")[0]))
        ctx.count("protected_write_ops_inspected", mon.write_ops)
        for w in mon.writes:
            ctx.violation("protected-write", f"{name}.apply wrote to {w['target']} via {w['op']}",
                          tags=dict(tags, obs=name.split("(")[0], target=w["target"].split(":")[0]), witness=w)
        if not torch.equal(sp, keep):
            ctx.violation("samples-modified", f"{name}.apply changed the sample array", tags=dict(tags, obs=name.split("(")[0]))
            sp = keep.clone()
        if not isinstance(val, torch.Tensor) or tuple(val.shape) != (N,) or val.is_complex() or not val.is_floating_point():
            ctx.violation("shape", f"{name}.apply returned {type(val).__name__} shape {tuple(getattr(val, 'shape', ()))} "
                          f"dtype {getattr(val, 'dtype', None)}; expected one real number per sample", tags=dict(tags, obs=name.split("(")[0]))
            continue
        v = val.detach().numpy().astype(float)
        if ab:
            ctx.count("absolute_checks")
            base = plain.get(name)
            if base is not None and not np.array_equal(v, np.abs(base)):
                ctx.violation("absolute-not-pointwise-abs", f"{name}(absolute=True) is not |value(absolute=False)| pointwise",
                              tags=dict(tags, obs=name), witness=wit)
        else:
            plain[name] = v
            want = float(np.real(np.trace(rho @ op)) / tr)
            got = float(np.sum(p * v))
            scale = float(np.sum(p * np.abs(v))) + 1e-300
            if name in ("SigmaX", "SigmaY"):
                # the per-sample value is the real part of a sum of importance ratios psi(s^i)/psi(s) (rho(s^i,s)/rho(s,s)):
                # relative errors of the energies act on |ratio| <= sqrt(p(s^i)/p(s)), which can be far larger than the
                # value itself (small imaginary/real part): scale = sum_s sum_i sqrt(p(s) p(s^i)) / n
                idx = np.arange(N)
                fs = sum(np.sqrt(p * p[idx ^ (1 << (nv - 1 - i_))]) for i_ in range(nv)) / nv
                scale = max(scale, float(np.sum(fs)))
            ctx.count("expectations_compared")
            ctx.count("mixed_state_expectations" if kind == "mixed" else "pure_state_expectations")
            if not abs(got - want) <= tau * max(scale, abs(want)):
                ctx.violation("biased-estimator", f"{name} on a {kind} state (n={nv}): exact average of the per-sample value "
                              f"{got!r}, Tr(rho O)/Tr(rho) = {want!r} (|diff| {abs(got-want):.3e}, tol {tau*max(scale, abs(want)):.1e})",
                              tags=dict(tags, obs=name.split("(")[0]), witness=wit)
        # other batch shapes give the same per-row values
        for bname, batch, rows in (("shuffled", shuffled, perm), ("single", single, None), ("distinct rows, unordered, " + dform, distinct, dperm),
                                   ("pair", pair, pperm), ("three rows", triple, tperm)):
            bk = batch.clone()
            vb = ctx.lib(f"{name}.apply({bname})", ob.apply, st, batch, tags=dict(tags, obs=name.split("(")[0]))
            ctx.count("batch_consistency_checks")
            if tuple(vb.shape) != (batch.shape[0],):
                ctx.violation("shape", f"{name}.apply({bname} batch) returned shape {tuple(vb.shape)}", tags=dict(tags, obs=name.split("(")[0]))
                continue
            idx = rows if rows is not None else [R.index_of(single[0].numpy())]
            ref = v[idx]
            # per-site importance ratios of both signs are summed: rounding scales with the largest term, for which the
            # largest value over the basis is a proxy (batched kernels differ in the last bits between batch shapes)
            if np.any(np.abs(vb.numpy() - ref) > 1e-11 * (1 + np.abs(v).max())):
                ctx.violation("batch-dependence", f"{name}: the value of a sample depends on the batch it is evaluated in ({bname})",
                              tags=dict(tags, obs=name.split("(")[0]), witness=wit)
            if not torch.equal(batch, bk):
                ctx.violation("samples-modified", f"{name}.apply changed the {bname} sample array", tags=dict(tags, obs=name.split("(")[0]))
    # history: the same observable instances applied again to the SAME tensor object after it was refilled in place
    # (what Observable.statistics does with its chains): values must follow the current contents
    buf = sp[rng.integers(0, N, size=min(N, 6))].clone()
    for name, ob, op, ab in obs:
        if ab or name not in plain:
            continue
        rows1 = rng.integers(0, N, size=buf.shape[0])
        buf.copy_(sp[rows1])
        v1 = ctx.lib(f"{name}.apply(buffer)", ob.apply, st, buf, tags=dict(tags, obs=name.split("(")[0]))
        rows2 = rng.integers(0, N, size=buf.shape[0])
        buf.copy_(sp[rows2])
        v2 = ctx.lib(f"{name}.apply(buffer refilled in place)", ob.apply, st, buf, tags=dict(tags, obs=name.split("(")[0]))
        ctx.count("in_place_refill_checks")
        for vv, rr, what in ((v1, rows1, "first fill"), (v2, rows2, "after an in-place refill")):
            ref = plain[name][rr]
            if tuple(vv.shape) != (len(rr),) or np.any(np.abs(vv.numpy() - ref) > 1e-11 * (1 + np.abs(plain[name]).max())):
                ctx.violation("stale-buffer", f"{name}: values on a re-used sample buffer ({what}) are not those of its current rows",
                              tags=dict(tags, obs=name.split("(")[0]), witness=wit)
                break
    if gen.all_nonzero(am, None if ph is None else {k: v for k, v in ph.items() if k != "d"}):
        ctx.mark_nontrivial(gen.model_digest(kind, am, ph))
    ctx.seen("kind_n", (kind, nv))
    ctx.seen("observables", len(obs))
    gen.scribble_spaces(st, nv)  # tensors handed out are the caller's: nothing later may depend on them
    ctx.sample({"case": case, "am": gen.small_params(am), "observables": [o[0] for o in obs][:8],
                "SigmaX": float(np.sum(p * plain.get("SigmaX", np.zeros(N))))})
