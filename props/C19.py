"""C19 - basis-state indexing and data loading are mutually consistent.

Events: generate_hilbert_space(size), subspace_vector(k,size), index conversion
(directly if the private helper exists, and through the explicit-psi rotation
path), position k of psi(space) / rho(space,space) / targets accepted by
fidelity; load_data, load_data_DM, extract_refbasis_samples on generated files.
Oracle: itertools.product / big-endian binary expansion / independent file parse.
"""
import itertools
import os
import shutil
import tempfile

import numpy as np
import torch

from vlib import gen, monitors, refmodel as R
from vlib.runner import np_rng

ID = "C19"
RULE = ("'space' cases: one per size 1..20 (all rows compared with itertools.product for n<=12 in quick / n<=16 in thorough, "
        "4000 sampled rows beyond); 'index' cases: one model per (kind, n<=5) checking that position k of every "
        "array produced/accepted denotes bits(k); 'file' cases: one random data set written to disk (N in 1..200, n in 1..8, "
        "alphabet subset of {X,Y,Z}+user letters, complex targets). Non-trivial: size/file never seen before, loaders with >= 2 "
        "rows and >= 2 columns; distinct by content digest.")
REQUIRED = ["space_requests_after_in_place_modification", "space_rows_compared", "subspace_vectors_compared", "index_conversions_compared", "array_positions_checked",
            "size_guard_checks", "files_loaded", "refbasis_extractions", "dm_files_loaded"]
ANCHOR_FILES = ["qucumber/utils/data.py", "qucumber/nn_states/neural_state.py"]
REACH = [
    ("qucumber/nn_states/neural_state.py", r"raise ValueError\(\"Size of the Hilbert space is too large!\"\)", "max_size guard"),
    ("qucumber/nn_states/neural_state.py", r"space = \(\(num & \(1 << np\.arange\(size\)\)\) > 0\)\[::-1\]", "subspace_vector"),
    ("qucumber/nn_states/neural_state.py", r"space = \(\(dim\[:, None\] & \(1 << np\.arange\(size\)\)\) > 0\)\[:, ::-1\]", "generate_hilbert_space"),
    ("qucumber/utils/data.py", r"target_psi\[1\] = torch\.tensor\(target_psi_data\[:, 1\]", "load_data psi"),
    ("qucumber/utils/data.py", r"data\.append\(cplx\.make_complex\(mtx_real, mtx_imag\)\)", "load_data_DM matrix"),
    ("qucumber/utils/data.py", r"raise ValueError\(\"Must provide a real and imaginary part", "load_data_DM guard"),
    ("qucumber/utils/data.py", r"z_samples = train_samples\[idx\]", "extract_refbasis_samples"),
]
EXHAUSTIVE_NOTE = "all rows of the generated Hilbert space are compared for sizes 1..12 (quick) / 1..16 (thorough)"
ASSUMPTIONS = ["files are parsed independently with str.split; targets compared after a float32 round trip",
               "degenerate N=1 / n=1 files are compared by value only (np.loadtxt squeezes them)"]
MIN_PER_WORKER = 2


def cases(tier, seed):
    out = []
    top = 20
    for n in range(1, top + 1):
        out.append({"t": "space", "n": n, "seed": seed})
    out.append({"t": "guard", "seed": seed})
    reps = 1 if tier == "quick" else 100
    for kind in gen.KINDS:
        for n in range(1, 6):
            for r in range(reps):
                out.append({"t": "index", "kind": kind, "n": n, "rep": r, "seed": seed})
    nf = 40 if tier == "quick" else 10000
    for i in range(nf):
        out.append({"t": "file", "rep": i, "seed": seed})
    return out


def bits(k, n):
    return [int(c) for c in format(k, f"0{n}b")]


def run_case(case, ctx):
    t = case["t"]
    if t == "space":
        return space_case(case, ctx)
    if t == "guard":
        return guard_case(case, ctx)
    if t == "index":
        return index_case(case, ctx)
    return file_case(case, ctx)


def any_state(n):
    from qucumber.nn_states import PositiveWaveFunction

    return PositiveWaveFunction(n, 1, gpu=False)


def space_case(case, ctx):
    n = case["n"]
    st = any_state(min(n, 3))
    sp = ctx.lib("generate_hilbert_space", st.generate_hilbert_space, size=n)
    if not isinstance(sp, torch.Tensor) or tuple(sp.shape) != (2 ** n, n) or sp.dtype != torch.double:
        ctx.violation("shape", f"generate_hilbert_space({n}) returned {tuple(getattr(sp, 'shape', ()))} {getattr(sp, 'dtype', None)}")
        return
    a = sp.numpy()
    rng = np_rng(ID, case["seed"], "space", n)
    if n <= (12 if ctx.tier == "quick" else 16):
        want = np.array(list(itertools.product([0, 1], repeat=n)), dtype=float)
        ctx.count("space_rows_compared", len(want))
        if not np.array_equal(a, want):
            k = int(np.argmax(np.any(a != want, axis=1)))
            ctx.violation("hilbert-space-order", f"size {n}: row {k} is {a[k].astype(int).tolist()}, big-endian bits of {k} are {bits(k, n)}",
                          tags={"size": n})
        ks = range(2 ** n) if n <= 8 else rng.integers(0, 2 ** n, size=300).tolist()
    else:
        ks = sorted(set(rng.integers(0, 2 ** n, size=4000).tolist()) | {0, 1, 2 ** n - 1, 2 ** (n - 1)})
        ctx.count("space_rows_compared", len(ks))
        for k in ks:
            if a[k].astype(int).tolist() != bits(k, n):
                ctx.violation("hilbert-space-order", f"size {n}: row {k} is {a[k].astype(int).tolist()}, big-endian bits of {k} are {bits(k, n)}",
                              tags={"size": n})
                break
        ks = ks[:300]
    del sp
    # the index as the integer types users actually hold: Python int, numpy integers of several widths (what np.arange,
    # np.argmax and numpy random generators return) and a 0-dim numpy array
    int_forms = [("int", int), ("numpy.int64", np.int64), ("numpy.int32", np.int32), ("numpy.intp", np.intp),
                 ("numpy.uint32", np.uint32), ("0-dim ndarray", lambda q: np.array(q, dtype=np.int64))]
    for pos_, k in enumerate(ks):
        fname_, conv_ = int_forms[pos_ % len(int_forms)]
        v = ctx.lib("subspace_vector", st.subspace_vector, conv_(int(k)), size=n, tags={"index_type": fname_})
        ctx.count("subspace_vectors_compared")
        ctx.seen("index_types", fname_)
        if tuple(v.shape) != (n,) or v.numpy().astype(int).tolist() != bits(int(k), n):
            ctx.violation("subspace-vector", f"subspace_vector({k} given as {fname_}, size={n}) = shape {tuple(v.shape)} "
                          f"{v.numpy().astype(int).reshape(-1).tolist()[:24]}, bits {bits(int(k), n)}", tags={"size": n, "index_type": fname_})
            break
    # the private index helper, if it still exists
    from qucumber.utils import unitaries

    conv = getattr(unitaries, "_convert_basis_element_to_index", None)
    if conv is not None and n <= 16:
        rows = torch.tensor(np.array([bits(int(k), n) for k in list(ks)[:200]], dtype=float))
        idx = conv(rows).long().numpy().tolist()
        ctx.count("index_conversions_compared", len(idx))
        if idx != [int(k) for k in list(ks)[:200]]:
            j = next(i for i, (x, y) in enumerate(zip(idx, list(ks)[:200])) if x != int(y))
            ctx.violation("index-conversion", f"index of {rows[j].int().tolist()} computed as {idx[j]}, expected {int(list(ks)[j])}", tags={"size": n})
    # history: the space handed out earlier was modified in place by its owner (e.g. used as an overwritten chain
    # state); a later request must still denote the right basis states
    if n <= 10:
        s1 = ctx.lib("generate_hilbert_space", st.generate_hilbert_space, size=n)
        s1[:, 0] = 1 - s1[:, 0]
        s1.mul_(0.5)
        s2 = ctx.lib("generate_hilbert_space(again)", st.generate_hilbert_space, size=n)
        st_b = any_state(min(n, 2))
        s3 = ctx.lib("generate_hilbert_space(other model)", st_b.generate_hilbert_space, size=n)
        ctx.count("space_requests_after_in_place_modification", 2)
        wantk = np.array([bits(k, n) for k in range(2 ** n)], dtype=float)
        for nm, sx in (("the same model", s2), ("another model", s3)):
            if not np.array_equal(sx.numpy(), wantk):
                ctx.violation("hilbert-space-shared-buffer", f"size {n}: after a previously returned space was modified in place, "
                              f"a new request from {nm} returns corrupted rows (row 0 = {sx[0].tolist()})", tags={"size": n})
        v1 = ctx.lib("subspace_vector", st.subspace_vector, 1, size=n)
        v1.add_(5.0)
        v1b = ctx.lib("subspace_vector(again)", st.subspace_vector, 1, size=n)
        if v1b.numpy().astype(int).tolist() != bits(1, n):
            ctx.violation("hilbert-space-shared-buffer", f"subspace_vector(1,{n}) corrupted by modifying an earlier result", tags={"size": n})
    ctx.mark_nontrivial(f"space:{n}")
    ctx.seen("sizes", n)
    if n in (3, 12, 20):
        ctx.sample({"case": case, "rows_5_to_7": a[5:8].astype(int).tolist() if len(a) > 7 else a.astype(int).tolist()})


def guard_case(case, ctx):
    st = any_state(2)
    ms = st.max_size
    ctx.count("size_guard_checks")
    ctx.must_raise(f"generate_hilbert_space({ms + 1})", ValueError, st.generate_hilbert_space, size=ms + 1)
    ctx.must_raise(f"generate_hilbert_space({ms + 7})", ValueError, st.generate_hilbert_space, size=ms + 7)
    # the DEFAULT size (what fidelity / KL / NLL users get) of a state larger than the limit is refused as well; a small
    # limit is set through the public max_size property so that a wrongly accepted request stays cheap
    from qucumber.nn_states import ComplexWaveFunction, DensityMatrix, PositiveWaveFunction

    for base in (PositiveWaveFunction, ComplexWaveFunction, DensityMatrix):
        for lim in (1, 3, 5):
            small = type("Small" + base.__name__, (base,), {"max_size": property(lambda self, lim=lim: lim)})
            for nv in (lim + 1, lim + 3):
                big = small(nv, 2, gpu=False) if base is not DensityMatrix else small(nv, 2, 2, gpu=False)
                ctx.count("size_guard_checks")
                ctx.must_raise(f"{base.__name__}(num_visible={nv}, max_size={lim}).generate_hilbert_space()", ValueError,
                               big.generate_hilbert_space, tags={"size": "default"})
                ctx.must_raise(f"{base.__name__}(num_visible={nv}, max_size={lim}).generate_hilbert_space(size={nv})", ValueError,
                               big.generate_hilbert_space, size=nv, tags={"size": "explicit"})
                ok_ = ctx.lib("generate_hilbert_space(size=limit)", big.generate_hilbert_space, size=lim)
                if tuple(ok_.shape) != (2 ** lim, lim):
                    ctx.violation("shape", f"generate_hilbert_space(size={lim}) at the limit returned {tuple(ok_.shape)}")
    ctx.mark_nontrivial("guard")


def index_case(case, ctx):
    from qucumber.utils import unitaries
    from qucumber.utils import training_statistics as ts

    kind, n = case["kind"], case["n"]
    rng = np_rng(ID, case["seed"], "index", kind, n, case["rep"])
    am, ph = gen.draw_model(rng, kind, n, int(rng.integers(1, 4)), int(rng.integers(1, 3)), scales=gen.SCALES_MODERATE)
    st = gen.make_state(kind, am, ph)
    N = 2 ** n
    sp = st.generate_hilbert_space()
    tags = {"state": kind}
    kd, dense = R.state_dense(kind, am, ph, n)
    Z = float(st.normalization(sp))
    if kind != "mixed":
        full = gen.dec(ctx.lib("psi", st.psi, sp))
        for k in range(N):
            one = gen.dec(ctx.lib("psi(1d)", st.psi, st.subspace_vector(k)).reshape(2, 1))[0]
            ctx.count("array_positions_checked")
            if abs(one - full[k]) > 1e-12 * abs(full[k]) or abs(full[k] - dense[k]) > 1e-6 * abs(dense[k]):
                ctx.violation("psi-position", f"column {k} of psi(space) is not psi(bits({k}))", tags=tags)
                break
        # arrays the library ACCEPTS: a target that is the basis vector e_k must give fidelity p(k)/Z
        for k in sorted(set(rng.integers(0, N, size=4).tolist())):
            e = np.zeros(N, dtype=complex)
            e[k] = 1
            f = ctx.lib("fidelity(e_k)", ts.fidelity, st, gen.enc(e), space=sp, tags=tags)
            ctx.count("array_positions_checked")
            want = abs(dense[k]) ** 2 / np.sum(np.abs(dense) ** 2)
            if abs(f - want) > 1e-8 * (1 + want):
                ctx.violation("target-position", f"fidelity with the basis vector e_{k} is {f!r}, p(bits({k}))/Z = {want!r}", tags=tags)
            # explicit psi through the rotation paths: all-Z basis picks entry k; 'X'+'Z..' acts on site 0 = leftmost factor
            marker = np.arange(N) + 1j * (np.arange(N) + 0.5)
            row = st.subspace_vector(k).unsqueeze(0)
            got = gen.dec(ctx.lib("rotate_psi_inner_prod(psi=)", unitaries.rotate_psi_inner_prod, st, "Z" * n, row,
                                  unitaries=unitaries.create_dict(), psi=gen.enc(marker), tags=tags)).reshape(-1)[0]
            ctx.count("index_conversions_compared")
            if got != marker[k]:
                ctx.violation("explicit-psi-position", f"entry picked for bits({k}) is {got!r}, expected position {k}", tags=tags)
            # arbitrary bases (rotated sites adjacent or not): entry picked for bits(k) must be position k of U psi
            for _ in range(3):
                bb = "".join(rng.choice(list("XYZ"), size=n))
                Ub = R.basis_unitary(bb)
                gotb = gen.dec(ctx.lib("rotate_psi_inner_prod(psi=, basis)", unitaries.rotate_psi_inner_prod, st, bb, row,
                                       unitaries=unitaries.create_dict(), psi=gen.enc(marker), tags=tags)).reshape(-1)[0]
                ctx.count("index_conversions_compared")
                if abs(gotb - (Ub @ marker)[k]) > 1e-12 * np.abs(marker).sum():
                    ctx.violation("explicit-psi-position", f"basis {bb}: amplitude returned for bits({k}) is {gotb!r}, position {k} of "
                                  f"U psi is {(Ub @ marker)[k]!r}", tags=dict(tags, basis_has_gap=("Z" in bb.strip("Z"))))
            b = "X" + "Z" * (n - 1)
            U = np.kron(R.U_X, np.eye(2 ** (n - 1)))
            r = gen.dec(ctx.lib("rotate_psi(psi=e_k)", unitaries.rotate_psi, st, b, sp, unitaries=unitaries.create_dict(), psi=gen.enc(e), tags=tags))
            ctx.count("array_positions_checked")
            if np.abs(r - U @ e).max() > 1e-14:
                ctx.violation("site-order", f"rotating e_{k} in basis {b}: site 0 is not the leftmost tensor factor", tags=tags)
    else:
        full = gen.dec(ctx.lib("rho", st.rho, sp, sp))
        pairs = [(j, k) for j in range(N) for k in range(N)]
        if len(pairs) > 40:
            pairs = [pairs[i] for i in rng.choice(len(pairs), size=40, replace=False)]
        for j, k in pairs:
            one = gen.dec(ctx.lib("rho(1d,1d)", st.rho, st.subspace_vector(j), st.subspace_vector(k)).reshape(2, 1))[0]
            ctx.count("array_positions_checked")
            if abs(one - full[j, k]) > 1e-12 * (abs(full[j, k]) + 1e-300) or abs(full[j, k] - dense[j, k]) > 1e-6 * np.sqrt(abs(dense[j, j] * dense[k, k])):
                ctx.violation("rho-position", f"entry ({j},{k}) of rho(space,space) is not rho(bits({j}), bits({k}))", tags=tags)
                break
        for k in sorted(set(rng.integers(0, N, size=3).tolist())):
            e = np.zeros((N, N), dtype=complex)
            e[k, k] = 1
            f = ctx.lib("fidelity(|k><k|)", ts.fidelity, st, gen.enc(e), space=sp, tags=tags)
            want = float(np.real(dense[k, k]) / np.real(np.trace(dense)))
            ctx.count("array_positions_checked")
            if abs(f - want) > 1e-6 * (1 + want):
                ctx.violation("target-position", f"fidelity with |{k}><{k}| is {f!r}, rho_kk/Z = {want!r}", tags=tags)
            for _ in range(2):
                bb = "".join(rng.choice(list("XYZ"), size=n))
                Ub = R.basis_unitary(bb)
                hm = rng.normal(size=(N, N)) + 1j * rng.normal(size=(N, N))
                hm = hm @ hm.conj().T
                row = st.subspace_vector(k).unsqueeze(0)
                gp = float(ctx.lib("rotate_rho_probs(rho=, basis)", unitaries.rotate_rho_probs, st, bb, row, rho=gen.enc(hm), tags=tags).reshape(-1)[0])
                wantp = float(np.real((Ub @ hm @ Ub.conj().T)[k, k]))
                ctx.count("index_conversions_compared")
                if abs(gp - wantp) > 1e-11 * np.abs(hm).sum():
                    ctx.violation("explicit-rho-position", f"basis {bb}: probability returned for bits({k}) is {gp!r}, entry ({k},{k}) of "
                                  f"U rho U^dagger is {wantp!r}", tags=tags)
            b = "X" + "Z" * (n - 1)
            U = np.kron(R.U_X, np.eye(2 ** (n - 1)))
            r = gen.dec(ctx.lib("rotate_rho(rho=)", unitaries.rotate_rho, st, b, sp, rho=gen.enc(e), tags=tags))
            if np.abs(r - U @ e @ U.conj().T).max() > 1e-14:
                ctx.violation("site-order", f"rotating |{k}><{k}| in basis {b}: site 0 is not the leftmost tensor factor", tags=tags)
    ctx.mark_nontrivial(gen.model_digest(kind, am, ph, extra="index"))
    ctx.seen("index_kind_n", (kind, n))


def write_rows(path, rows, fmt):
    with open(path, "w") as f:
        for r in rows:
            f.write(" ".join(fmt(x) for x in r) + "\n")


def parse(path, conv):
    out = []
    for line in open(path):
        if line.strip():
            out.append([conv(x) for x in line.split()])
    return out


def file_case(case, ctx):
    from qucumber.utils import data as D

    rng = np_rng(ID, case["seed"], "file", case["rep"])
    tmp = tempfile.mkdtemp(prefix="verif-c19-", dir="/var/tmp")
    try:
        i = case["rep"]
        N = 1 if i % 17 == 16 else int(rng.integers(2, 201))
        n = 1 if i % 9 == 8 else int(rng.integers(2, 9))
        alphabet = list("XYZ") + (["H", "K"] if rng.random() < 0.3 else [])
        if i % 4 == 2:
            alphabet += ["Xr", "Zt", "had"]  # dictionary keys are arbitrary strings: labels longer than one character
        alphabet = [a for a in alphabet if rng.random() < 0.8] or ["Z"]
        if "Z" not in alphabet:
            alphabet.append("Z")
        samples = rng.integers(0, 2, size=(N, n))
        bases = gen.random_bases(rng, N, n, alphabet=list(alphabet), p_z=0.35)  # a list: labels may have several characters
        ctx.seen("longest_basis_label", int(max(len(a_) for a_ in alphabet)))
        zmode = i % 5
        if zmode in (1, 2, 3) and N >= 2 and n >= 2 and len(alphabet) > 1:
            # patterns of reference-basis rows: none / exactly one / all but one (counts 0 and 1 are where index tricks slip)
            other = [a for a in alphabet if a != "Z"][0]
            for r_ in range(N):
                if all(c == "Z" for c in bases[r_]):
                    bases[r_, int(rng.integers(0, n))] = other
            if zmode == 2:
                bases[int(rng.integers(0, N))] = "Z"
            elif zmode == 3:
                keep_ = int(rng.integers(0, N))
                row_ = bases[keep_].copy()
                bases[:] = "Z"
                bases[keep_] = row_
            ctx.seen("reference_row_patterns", ["random", "none", "exactly-one", "all-but-one"][zmode])
        dim = 2 ** min(n, 4)
        psi = rng.normal(size=(dim, 2)) * 10.0 ** rng.integers(-3, 3)
        mr, mi = rng.normal(size=(dim, dim)), rng.normal(size=(dim, dim))
        allb = sorted({"".join(b) for b in bases})
        p = {k: os.path.join(tmp, k + ".txt") for k in ("s", "psi", "b", "ab", "mr", "mi")}
        write_rows(p["s"], samples, lambda x: str(int(x)))
        write_rows(p["psi"], psi, lambda x: repr(float(x)))
        write_rows(p["b"], bases, str)
        write_rows(p["ab"], [[b] for b in allb], str)
        write_rows(p["mr"], mr, lambda x: repr(float(x)))
        write_rows(p["mi"], mi, lambda x: repr(float(x)))
        # independent parse
        S = np.array(parse(p["s"], float))
        P = np.array(parse(p["psi"], float))
        B = np.array(parse(p["b"], str), dtype=str)
        AB = [r[0] for r in parse(p["ab"], str)]
        degenerate = N == 1 or n == 1

        def same(lib, ref, what, f32=False):
            a = lib.numpy() if isinstance(lib, torch.Tensor) else np.asarray(lib)
            r = np.asarray(ref)
            if f32:
                r = r.astype(np.float32).astype(np.float64)
            if degenerate:
                # np.loadtxt squeezes single-row / single-column files to 1-D: accepted; but a 2-D result must keep
                # "one row per line of the file" (N lines = N samples), it must not come back transposed
                if a.ndim == 2 and r.ndim == 2 and a.shape != r.shape:
                    ctx.violation("loader-mismatch", f"{what}: a file with {r.shape[0]} lines of {r.shape[1]} entries was loaded with "
                                  f"shape {a.shape}", tags={"what": what, "degenerate": True})
                    return
                a, r = a.reshape(-1), r.reshape(-1)
            if a.shape != r.shape or not np.array_equal(a, r):
                ctx.violation("loader-mismatch", f"{what}: loaded shape {a.shape} / file shape {r.shape}; first difference at "
                              f"{np.argwhere(a.reshape(-1)[:r.size] != r.reshape(-1)[:a.size])[:1].tolist() if a.size and r.size else '-'}",
                              tags={"what": what})

        out = ctx.lib("load_data", D.load_data, p["s"], p["psi"], p["b"], p["ab"])
        ctx.count("files_loaded")
        if not isinstance(out, list) or len(out) != 4:
            ctx.violation("shape", f"load_data returned {len(out) if hasattr(out, '__len__') else type(out)} items")
            return
        same(out[0], S, "samples")
        if isinstance(out[1], torch.Tensor) and out[1].dim() == 2 and out[1].shape[0] == 2:
            same(out[1][0], P[:, 0], "target real part", f32=True)
            same(out[1][1], P[:, 1], "target imaginary part", f32=True)
        else:
            ctx.violation("shape", f"target wavefunction shape {tuple(getattr(out[1], 'shape', ()))}")
        same(out[2], B, "bases")
        same(out[3], np.array(AB, dtype=str), "all bases")
        out1 = ctx.lib("load_data(samples only)", D.load_data, p["s"])
        if len(out1) != 1:
            ctx.violation("shape", "load_data(samples only) returned extra items")
        dm = ctx.lib("load_data_DM", D.load_data_DM, p["s"], p["mr"], p["mi"], p["b"], p["ab"])
        ctx.count("dm_files_loaded")
        if len(dm) != 4:
            ctx.violation("shape", f"load_data_DM returned {len(dm)} items")
        else:
            same(dm[0], S, "DM samples")
            if isinstance(dm[1], torch.Tensor) and dm[1].dim() == 3:
                same(dm[1][0], np.array(parse(p["mr"], float)), "target matrix real part", f32=True)
                same(dm[1][1], np.array(parse(p["mi"], float)), "target matrix imaginary part", f32=True)
            else:
                ctx.violation("shape", f"target matrix shape {tuple(getattr(dm[1], 'shape', ()))}")
            same(dm[2], B, "DM bases")
        ctx.must_raise("load_data_DM(real part only)", ValueError, D.load_data_DM, p["s"], tr_mtx_real_path=p["mr"])
        # reference-basis extraction: precisely the all-Z rows, in order
        if not degenerate:
            ts_ = torch.tensor(S, dtype=torch.double)
            keep = ts_.clone()
            z = ctx.lib("extract_refbasis_samples", D.extract_refbasis_samples, ts_, B)
            ctx.count("refbasis_extractions")
            want = S[[all(c == "Z" for c in row) for row in B]]
            if tuple(z.shape) != want.shape or not np.array_equal(z.numpy(), want):
                ctx.violation("refbasis-extraction", f"extracted {tuple(z.shape)} rows, the file has {want.shape} all-Z rows (in order)",
                              tags={"what": "refbasis"})
            if not torch.equal(ts_, keep):
                ctx.violation("input-modified", "extract_refbasis_samples modified the samples")
            if N >= 2 and n >= 2:
                ctx.mark_nontrivial(monitors.digest([S, B.tolist()]))
        ctx.seen("alphabets", "".join(sorted(alphabet)))
        ctx.seen("file_shapes_degenerate", degenerate)
        if i < 2:
            ctx.sample({"case": case, "N": N, "n": n, "alphabet": alphabet, "first_rows": S[:2].astype(int).tolist(),
                        "first_bases": B[:2].tolist()})
    finally:
        shutil.rmtree(tmp, ignore_errors=True)
