"""C01 - Born rule for wavefunction states.

Events: return values of psi / amplitude / phase / probability / normalization on
the full basis (batched) and on every single 1-D basis vector.
Oracle: hidden-unit marginal by explicit enumeration (vlib.refmodel), in the
log domain; metamorphic monitors (phase network does not move the modulus,
amplitude network does not move the phase); float sanitizer (L3c).
"""
import numpy as np
import torch

from vlib import gen, monitors, refmodel as R
from vlib.runner import np_rng

ID = "C01"
RULE = ("one case = one model (kind in {positive, complex}, num_visible 1..5 x num_hidden 1..6, "
        "parameter tensors drawn with independent scales from {1e-3..30} and random signs, "
        "rescaled until max|log p~| <= 600). Non-trivial: every weight and every bias of every "
        "network non-zero; distinct by sha256 of (kind, all parameter bytes).")
REQUIRED = ["states_used_before_with_other_parameters", "held_results_rechecked", "logp_entries_compared", "psi_entries_compared", "oned_calls_compared",
            "metamorphic_checks", "float_sanitizer_ops"]
ANCHOR_FILES = ["qucumber/nn_states/wavefunction.py", "qucumber/nn_states/positive_wavefunction.py",
                "qucumber/nn_states/complex_wavefunction.py", "qucumber/rbm/binary_rbm.py"]
REACH = [
    ("qucumber/rbm/binary_rbm.py", r"hid_bias_term = F\.softplus", "BinaryRBM.effective_energy"),
    ("qucumber/rbm/binary_rbm.py", r"logZ = ", "BinaryRBM.partition"),
    ("qucumber/nn_states/wavefunction.py", r"amplitude \* phase\.cos\(\)", "WaveFunctionBase.psi"),
    ("qucumber/nn_states/positive_wavefunction.py", r"return cplx\.make_complex\(self\.amplitude",
     "PositiveWaveFunction.psi"),
    ("qucumber/nn_states/complex_wavefunction.py", r"return -0\.5 \* self\.rbm_ph", "ComplexWaveFunction.phase"),
    ("qucumber/utils/__init__.py", r"args\[a\] = args\[a\]\.unsqueeze\(0\)", "auto_unsqueeze 1-D branch"),
]
ASSUMPTIONS = ["numpy/torch float64 arithmetic and logsumexp are correct",
               "softplus threshold approximation budgeted as tau_sp = 3e-9 per hidden unit"]
MIN_PER_WORKER = 8
TAU = 3e-9


def cases(tier, seed):
    reps = 10 if tier == "quick" else 2000
    out = []
    for kind in ("positive", "complex"):
        for nv in range(1, 6):
            for nh in range(1, 7):
                for r in range(reps):
                    out.append({"kind": kind, "nv": nv, "nh": nh, "rep": r, "cls": "generic",
                                "seed": seed})
                for cls in ("zero_weights", "huge_bias", "all_equal", "zero_bias", "moderate"):
                    out.append({"kind": kind, "nv": nv, "nh": nh, "rep": 0, "cls": cls,
                                "seed": seed})
    # wider systems than any unit test builds (sizes around powers of two and beyond internal chunking thresholds a
    # refactoring might introduce): the reference marginal is closed-form in the hidden units, so 2^16 rows are cheap
    for kind in ("positive", "complex"):
        for nv, nh in ((8, 3), (9, 12), (12, 2), (15, 4), (16, 1)):
            for r in range(1 if tier == "quick" else 6):
                out.append({"kind": kind, "nv": nv, "nh": nh, "rep": r, "cls": "moderate", "seed": seed})
    return out


def build(case):
    rng = np_rng(ID, case["seed"], case["kind"], case["nv"], case["nh"], case["rep"], case["cls"])
    kind, nv, nh, cls = case["kind"], case["nv"], case["nh"], case["cls"]
    scales = gen.SCALES_FULL if cls != "moderate" else gen.SCALES_MODERATE
    am, ph = gen.draw_model(rng, kind, nv, nh, scales=scales)
    if cls == "zero_weights":
        am["W"] = np.zeros_like(am["W"])
    elif cls == "huge_bias":
        am["b"][rng.integers(nv)] = 30.0 * rng.choice([-1, 1])
        am["c"][rng.integers(nh)] = 30.0 * rng.choice([-1, 1])
    elif cls == "all_equal":
        x = float(rng.choice([-2.0, 0.5, 1.0]))
        am = {k: np.full_like(v, x) for k, v in am.items()}
    elif cls == "zero_bias":
        am["b"] = np.zeros_like(am["b"])
        am["c"] = np.zeros_like(am["c"])
    return rng, am, ph


def _shape_ok(ctx, what, t, shape):
    if not isinstance(t, torch.Tensor) or tuple(t.shape) != tuple(shape):
        ctx.violation("shape", f"{what}: expected tensor of shape {tuple(shape)}, got "
                      f"{type(t).__name__} {tuple(getattr(t, 'shape', ()))}", tags={"what": what})
        return False
    return True


def run_case(case, ctx):
    rng, am, ph = build(case)
    kind, nv, nh = case["kind"], case["nv"], case["nh"]
    if case["rep"] % 2:
        def warm(s_):
            sp_ = s_.generate_hilbert_space()
            s_.psi(sp_), s_.probability(sp_), s_.normalization(sp_), s_.phase(sp_[0]), s_.amplitude(sp_)
        st, how = gen.make_state_used(rng, kind, am, ph, warm)
        ctx.count("states_used_before_with_other_parameters")
        ctx.seen("parameter_change_idioms", how)
    else:
        st = gen.make_state(kind, am, ph)
    V = R.space(nv)
    sp = ctx.lib("generate_hilbert_space", st.generate_hilbert_space)
    if not _shape_ok(ctx, "generate_hilbert_space", sp, V.shape):
        return
    N = len(V)
    la_ref = R.rbm_log_marginal(am, V)
    lp_ref = R.rbm_log_marginal(ph, V) if ph is not None else None
    tau = gen.tau_sp(nv, am, ph)  # zero unless a unit saturates beyond softplus' switch-over
    ctx.seen("softplus_budget_in_force", tau > 0)

    use_san = case["rep"] % 4 == 0
    mon = monitors.DispatchMonitor(float_check=True) if use_san else None
    if mon:
        mon.__enter__()
    try:
        psi = ctx.lib("psi", st.psi, sp)
        amp = ctx.lib("amplitude", st.amplitude, sp)
        pha = ctx.lib("phase", st.phase, sp)
        prob = ctx.lib("probability", st.probability, sp)
        Z = ctx.lib("normalization", st.normalization, sp)
    finally:
        if mon:
            mon.__exit__(None, None, None)
    if mon:
        ctx.count("float_sanitizer_ops", mon.ops)
        for nf in mon.nonfinite:
            ctx.violation("nonfinite", f"non-finite output of {nf['op']} from finite inputs inside the "
                          "parameter range", tags={"op": nf["op"]}, witness=nf)
    ok = _shape_ok(ctx, "psi", psi, (2, N)) and _shape_ok(ctx, "amplitude", amp, (N,)) \
        and _shape_ok(ctx, "phase", pha, (N,)) and _shape_ok(ctx, "probability", prob, (N,))
    if not ok:
        return
    psi_l = gen.dec(psi)
    amp_l, pha_l, prob_l = amp.numpy().astype(float), pha.numpy().astype(float), prob.numpy().astype(float)
    Z_l = float(Z)
    wit = {"am": gen.small_params(am), "ph": gen.small_params(ph)}

    # (1) reported probability = enumerated hidden-unit marginal (log domain)
    with np.errstate(divide="ignore"):
        llib = np.log(prob_l)
    tol = tau + 1e-12 * (1 + np.abs(la_ref))
    bad = np.abs(llib - la_ref) > tol
    ctx.count("logp_entries_compared", N)
    if bad.any():
        i = int(np.argmax(np.abs(llib - la_ref) - tol))
        ctx.violation("probability-vs-marginal",
                      f"log probability({V[i].astype(int).tolist()}) = {llib[i]!r}, enumerated marginal "
                      f"{la_ref[i]!r}, diff {llib[i]-la_ref[i]:.3e} > tol {tol[i]:.1e}",
                      tags={"state": kind}, witness=wit)
    # (2) |psi|^2 = probability ; amplitude^2 = probability
    rel = 1e-12
    m2 = np.abs(psi_l) ** 2
    ctx.count("psi_entries_compared", N)
    if np.any(np.abs(m2 - prob_l) > rel * 8 * np.abs(prob_l) + 1e-300):
        i = int(np.argmax(np.abs(m2 - prob_l) / (np.abs(prob_l) + 1e-300)))
        ctx.violation("modulus-vs-probability", f"|psi|^2={m2[i]!r} but probability={prob_l[i]!r} at row {i}",
                      tags={"state": kind}, witness=wit)
    if np.any(np.abs(amp_l ** 2 - prob_l) > rel * 8 * np.abs(prob_l) + 1e-300):
        ctx.violation("amplitude-vs-probability", "amplitude^2 != probability", tags={"state": kind}, witness=wit)
    # (3) psi against the reference wavefunction; phase
    if kind == "complex":
        psi_ref = np.exp(0.5 * la_ref + 0.5j * lp_ref)
        tolp = (tau + 1e-12 * (2 + np.abs(la_ref) + np.abs(lp_ref))) * np.abs(psi_ref)
        d = np.abs(psi_l - psi_ref)
        if np.any(d > tolp):
            i = int(np.argmax(d - tolp))
            ctx.violation("psi-vs-reference", f"psi[{i}]={psi_l[i]!r} reference {psi_ref[i]!r}",
                          tags={"state": kind}, witness=wit)
        tolph = tau / 2 + 1e-12 * (1 + np.abs(lp_ref))
        if np.any(np.abs(pha_l - lp_ref / 2) > tolph):
            i = int(np.argmax(np.abs(pha_l - lp_ref / 2)))
            ctx.violation("phase-vs-half-negated-energy",
                          f"phase[{i}]={pha_l[i]!r}, -E_mu/2 by enumeration = {lp_ref[i]/2!r}",
                          tags={"state": kind}, witness=wit)
        ctx.count("phase_entries_compared", N)
    else:
        if np.any(psi_l.imag != 0) or np.any(psi_l.real < 0) or np.any(pha_l != 0):
            ctx.violation("positive-state-not-real-nonneg",
                          f"positive state: imag={psi_l.imag.tolist()[:4]} real min={psi_l.real.min()} "
                          f"phase={pha_l.tolist()[:4]}", tags={"state": kind}, witness=wit)
        psi_ref = np.exp(0.5 * la_ref)
        tolp = (tau + 1e-12 * (2 + np.abs(la_ref))) * psi_ref
        if np.any(np.abs(psi_l.real - psi_ref) > tolp):
            i = int(np.argmax(np.abs(psi_l.real - psi_ref) - tolp))
            ctx.violation("psi-vs-reference", f"psi[{i}]={psi_l[i]!r} reference {psi_ref[i]!r}",
                          tags={"state": kind}, witness=wit)
        ctx.count("phase_entries_compared", N)
    # (4) normalisation
    Zsum = float(np.sum(prob_l))
    Zref = float(np.sum(np.exp(la_ref)))
    ctx.count("normalisations_compared")
    if not abs(Z_l - Zsum) <= 1e-11 * Zsum:
        ctx.violation("normalization-vs-sum", f"normalization={Z_l!r} but sum of probabilities={Zsum!r}",
                      tags={"state": kind}, witness=wit)
    if not abs(Z_l - Zref) <= (tau + 1e-11) * Zref:
        ctx.violation("normalization-vs-reference", f"normalization={Z_l!r}, reference Z={Zref!r}",
                      tags={"state": kind}, witness=wit)
    # the normalisation is a sum over the basis: the order in which the caller lists the basis states (little-endian,
    # Gray code, any permutation) and the memory form of that list do not matter
    if N > 1:
        orders = {"reversed": np.arange(N)[::-1].copy(), "little-endian": np.array([int(format(i_, f"0{nv}b")[::-1], 2) for i_ in range(N)]),
                  "gray": np.array([i_ ^ (i_ >> 1) for i_ in range(N)]), "random": rng.permutation(N)}
        oname = list(orders)[int(rng.integers(0, len(orders)))]
        psp, pform = gen.memory_form(sp[orders[oname].tolist()].clone(), rng)
        Zp = float(ctx.lib("normalization(permuted space)", st.normalization, psp, tags={"state": kind, "order": oname, "memory_form": pform}))
        ctx.count("normalisations_of_permuted_spaces")
        if not abs(Zp - Z_l) <= 1e-11 * abs(Z_l):
            ctx.violation("normalization-depends-on-row-order", f"normalization of the full basis listed in {oname} order ({pform}) = {Zp!r}, in "
                          f"counting order {Z_l!r}", tags={"state": kind, "order": oname}, witness=wit)
    for zname, zarg in (("tensor", Z), ("float", float(Z_l)), ("numpy.float64", np.float64(Z_l))):
        pn = ctx.lib(f"probability(Z as {zname})", st.probability, sp, zarg, tags={"state": kind, "Z_form": zname}).numpy()
        ctx.count("normalised_probability_forms_checked")
        if not abs(float(pn.sum()) - 1) <= 1e-10:
            ctx.violation("normalised-sum", f"sum p/Z = {float(pn.sum())!r} (Z given as {zname})", tags={"state": kind, "Z_form": zname}, witness=wit)
        elif np.any(np.abs(pn - prob_l / Z_l) > 1e-12 * (prob_l / Z_l) + 1e-300):
            i = int(np.argmax(np.abs(pn - prob_l / Z_l) / (prob_l / Z_l + 1e-300)))
            ctx.violation("normalised-probability", f"probability(v, Z) with Z given as {zname}: {pn[i]!r}, but probability(v)/Z = "
                          f"{prob_l[i] / Z_l!r}", tags={"state": kind, "Z_form": zname}, witness=wit)
    nrm = float(np.sum(np.abs(psi_l / np.sqrt(Z_l)) ** 2))
    if not abs(nrm - 1) <= 1e-10:
        ctx.violation("unit-norm", f"||psi/sqrt(Z)||^2 = {nrm!r}", tags={"state": kind}, witness=wit)

    # (5) 1-D call form equals the batched column
    idxs = range(N) if N <= 8 else sorted(set(rng.integers(0, N, size=6).tolist()) | {0, N - 1})
    for i in idxs:
        v = sp[i].clone()
        p1 = ctx.lib("psi(1d)", st.psi, v)
        a1 = ctx.lib("amplitude(1d)", st.amplitude, v)
        f1 = ctx.lib("phase(1d)", st.phase, v)
        q1 = ctx.lib("probability(1d)", st.probability, v)
        ctx.count("oned_calls_compared", 4)
        if tuple(p1.shape) != (2,) or a1.numel() != 1 or f1.numel() != 1 or q1.numel() != 1:
            ctx.violation("shape", f"1-D call forms returned shapes {tuple(p1.shape)}, {tuple(a1.shape)}, "
                          f"{tuple(f1.shape)}, {tuple(q1.shape)}", tags={"what": "1d"})
            break
        z = complex(float(p1[0]), float(p1[1]))
        if abs(z - psi_l[i]) > 1e-12 * abs(psi_l[i]) or abs(float(a1) - amp_l[i]) > 1e-12 * amp_l[i] \
                or abs(float(f1) - pha_l[i]) > 1e-12 * (1 + abs(pha_l[i])) \
                or abs(float(q1) - prob_l[i]) > 1e-12 * prob_l[i]:
            ctx.violation("oned-vs-batched", f"row {i}: 1-D forms psi={z!r} amp={float(a1)!r} phase={float(f1)!r} "
                          f"prob={float(q1)!r} vs batched {psi_l[i]!r} {amp_l[i]!r} {pha_l[i]!r} {prob_l[i]!r}",
                          tags={"state": kind}, witness=wit)
            break
        if not torch.equal(v, sp[i]):
            ctx.violation("input-mutated", "1-D call modified its argument", tags={"state": kind})
        # the basis state handed over with another dtype (integer / single precision 0-1 entries are exact)
        for alt in (sp[i].long(), sp[i].float()):
            pz = ctx.lib("psi(1d, other dtype)", st.psi, alt, tags={"state": kind, "dtype": str(alt.dtype)})
            qz = ctx.lib("probability(1d, other dtype)", st.probability, alt, tags={"state": kind, "dtype": str(alt.dtype)})
            ctx.count("input_dtype_forms_checked")
            zz = complex(float(pz.reshape(-1)[0]), float(pz.reshape(-1)[1]))
            if pz.dtype != torch.double or abs(zz - psi_l[i]) > 1e-12 * abs(psi_l[i]) or abs(float(qz) - prob_l[i]) > 1e-12 * prob_l[i]:
                ctx.violation("input-dtype-dependence", f"psi/probability of row {i} given as {alt.dtype}: {zz!r} / {float(qz)!r} "
                              f"(dtype {pz.dtype}) vs {psi_l[i]!r} / {prob_l[i]!r}", tags={"state": kind, "dtype": str(alt.dtype)}, witness=wit)
                break

    # (5b) the values belong to the basis state, not to its position in the batch or to how the batch lies in memory:
    # arbitrary row order, duplicates, one-row and all-equal batches, strided / column-major / sliced / expanded views
    for rep_ in range(4):
        m_ = [1, int(rng.integers(2, 2 * N + 2)), int(rng.integers(2, 7)), int(rng.integers(2, N + 1))][rep_]
        idx_ = rng.integers(0, N, size=m_)
        if rep_ == 2:
            idx_[:] = idx_[0]
        if rep_ == 3:  # pairwise distinct rows in no particular order (a de-duplicated data set)
            idx_ = rng.permutation(N)[:m_]
        batch, form = gen.memory_form(sp[idx_.tolist()].clone(), rng)
        keep = batch.clone()
        pb = ctx.lib("psi(batch)", st.psi, batch, tags={"state": kind, "memory_form": form})
        ab = ctx.lib("amplitude(batch)", st.amplitude, batch, tags={"state": kind, "memory_form": form})
        fb = ctx.lib("phase(batch)", st.phase, batch, tags={"state": kind, "memory_form": form})
        qb = ctx.lib("probability(batch)", st.probability, batch, tags={"state": kind, "memory_form": form})
        ctx.count("arbitrary_batches_compared")
        ctx.seen("memory_forms", form)
        if not (_shape_ok(ctx, "psi(batch)", pb, (2, m_)) and _shape_ok(ctx, "amplitude(batch)", ab, (m_,))
                and _shape_ok(ctx, "phase(batch)", fb, (m_,)) and _shape_ok(ctx, "probability(batch)", qb, (m_,))):
            break
        zb = gen.dec(pb)
        bad = (np.abs(zb - psi_l[idx_]) > 1e-12 * np.abs(psi_l[idx_])) | (np.abs(ab.numpy() - amp_l[idx_]) > 1e-12 * amp_l[idx_]) \
            | (np.abs(fb.numpy() - pha_l[idx_]) > 1e-12 * (1 + np.abs(pha_l[idx_]))) | (np.abs(qb.numpy() - prob_l[idx_]) > 1e-12 * prob_l[idx_])
        if bad.any():
            j = int(np.argmax(bad))
            ctx.violation("batch-position-dependence", f"batch of {m_} rows ({form}), position {j} = basis state {int(idx_[j])}: psi={zb[j]!r} "
                          f"prob={float(qb[j])!r} vs {psi_l[idx_[j]]!r} / {prob_l[idx_[j]]!r} from the ordered full space",
                          tags={"state": kind, "memory_form": form}, witness=dict(wit, rows=idx_.tolist(), form=form))
            break
        if not torch.equal(batch, keep):
            ctx.violation("input-mutated", f"a {form} batch was modified by psi/amplitude/phase/probability", tags={"state": kind})
            break

    # results returned earlier must not be clobbered by later calls (no shared work buffers)
    ctx.count("held_results_rechecked", 4)
    if not (np.array_equal(gen.dec(psi), psi_l) and np.array_equal(amp.numpy(), amp_l) and np.array_equal(prob.numpy(), prob_l)
            and np.array_equal(pha.numpy(), pha_l)):
        ctx.violation("earlier-result-clobbered", "a tensor returned by psi/amplitude/phase/probability changed during later calls",
                      tags={"state": kind})
    # (6) metamorphic: modulus depends only on the amplitude network, phase only on the phase network
    if kind == "complex":
        am2, ph2 = gen.draw_model(rng, kind, nv, nh, scales=gen.SCALES_MODERATE)
        gen.set_params(st.rbm_ph, ph2)
        amp2 = ctx.lib("amplitude", st.amplitude, sp).numpy()
        prob2 = ctx.lib("probability", st.probability, sp).numpy()
        mod2 = np.abs(gen.dec(ctx.lib("psi", st.psi, sp)))
        if not (np.array_equal(amp2, amp_l) and np.array_equal(prob2, prob_l)
                and np.all(np.abs(mod2 - amp_l) <= 1e-12 * amp_l)):
            ctx.violation("modulus-depends-on-phase-network",
                          "changing only the phase network changed amplitude/probability/|psi|",
                          tags={"state": kind}, witness=wit)
        gen.set_params(st.rbm_ph, ph)
        gen.set_params(st.rbm_am, am2)
        pha2 = ctx.lib("phase", st.phase, sp).numpy()
        if not np.array_equal(pha2, pha_l):
            ctx.violation("phase-depends-on-amplitude-network",
                          "changing only the amplitude network changed the phase", tags={"state": kind}, witness=wit)
        gen.set_params(st.rbm_am, am)
        ctx.count("metamorphic_checks", 2)
    else:
        ctx.count("metamorphic_checks", 0)
        # positive state: psi must be exactly sqrt(probability) with zero imaginary part (checked above)
        ctx.count("metamorphic_checks", 1)

    nontrivial = gen.all_nonzero(am, ph)
    dg = gen.model_digest(kind, am, ph)
    if nontrivial:
        ctx.mark_nontrivial(dg)
    ctx.seen("architectures", (kind, nv, nh))
    ctx.seen("scale_classes", case["cls"])
    ctx.seen("max_abs_logp_decade", int(np.log10(1 + np.max(np.abs(la_ref)))))
    gen.scribble_spaces(st, nv)  # tensors handed out are the caller's: nothing later may depend on them
    ctx.sample({"case": case, "am": gen.small_params(am), "ph": gen.small_params(ph),
                "Z": Z_l, "max_abs_log_p": float(np.max(np.abs(la_ref)))})
