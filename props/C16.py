"""C16 - composite observables evaluate to the same arithmetic on their parts.

Events: apply and statistics_from_samples of a composite built with the Python
operators from a random expression tree, and of each leaf, on the same batch.
Oracle: an interpreter of the same tree over the leaves' per-sample values.
"""
import math

import numpy as np
import torch

from vlib import gen, monitors, refmodel as R
from vlib.runner import np_rng

ID = "C16"
RULE = ("one case = one random expression tree (depth <= 6) over {SigmaX, SigmaY, SigmaZ, NeighbourInteraction(+-periodic, c), "
        "SWAP(A)} and scalars {0, +-1, 2, -3.5, 1e-9, 1e9, numpy.float64, True} using -x, x+y, x-y, s*x, x*s, s+x, x+s, s-x, "
        "x-s, evaluated on a random batch of a random state. Non-trivial: depth >= 2, >= 1 scalar and >= 2 leaves; distinct by "
        "the canonical string of the tree.")
REQUIRED = ["immutability_checks", "reuse_on_second_state_checks", "trees_evaluated", "apply_vectors_compared", "statistics_dicts_compared", "rejections_observed",
            "ops_neg", "ops_add", "ops_sub", "ops_mul_left_scalar", "ops_mul_right_scalar", "ops_radd", "ops_rsub", "ops_add_scalar",
            "ops_sub_scalar"]
ANCHOR_FILES = ["qucumber/observables/observable.py"]
REACH = [
    ("qucumber/observables/observable.py", r"return SumObservable\(other, -self\)", "__rsub__"),
    ("qucumber/observables/observable.py", r"return ProdObservable\(other, self\)", "__rmul__"),
    ("qucumber/observables/observable.py", r"return SumObservable\(other, self\)", "__radd__"),
    ("qucumber/observables/observable.py", r"return self\.left \* self\.right\.apply", "ProdObservable.apply"),
    ("qucumber/observables/observable.py", r"raise ValueError\(\"Exactly one of o1 or o2", "Obs*Obs guard"),
]
ASSUMPTIONS = ["mathematical equality of the expression within 1e-12 * sum|terms| (re-association never alarms)"]
MIN_PER_WORKER = 20
SCALARS = [0, 1, -1, 2, -3.5, 1e-9, 1e9, np.float64(0.75), True, 0.0, -2]


def cases(tier, seed):
    n = 1500 if tier == "quick" else 250000
    out = [{"t": "tree", "rep": i, "seed": seed} for i in range(n)]
    out.append({"t": "reject", "seed": seed})
    for i in range(4 if tier == "quick" else 60):
        out.append({"t": "large", "rep": i, "seed": seed})
    for i in range(24 if tier == "quick" else 600):
        out.append({"t": "exotic", "rep": i, "seed": seed})
    return out


def leaf(rng, nv):
    from qucumber.observables import SWAP, NeighbourInteraction, SigmaX, SigmaY, SigmaZ

    k = int(rng.integers(0, 6))
    if k == 0:
        return SigmaX(), "X"
    if k == 1:
        return SigmaY(), "Y"
    if k == 2:
        return SigmaZ(absolute=bool(rng.integers(0, 2))), "Z"
    if k == 3:
        per, c = bool(rng.integers(0, 2)), int(rng.integers(1, nv + 1))
        return NeighbourInteraction(periodic_bcs=per, c=c), f"ZZ({per},{c})"
    if k == 4:
        A = sorted(rng.choice(nv, size=int(rng.integers(0, nv + 1)), replace=False).tolist())
        return SWAP(A), f"SWAP{A}"
    return SigmaZ(), "Z0"


def build(rng, nv, depth, ctx, stats):
    """returns (library observable, interpreter closure, canonical string, #leaves, #scalars, depth)"""
    if depth == 0 or rng.random() < 0.18:
        ob, s = leaf(rng, nv)
        stats.setdefault("_nodes", []).append(ob)
        return ob, ("leaf", ob), s, 1, 0, 0
    op = int(rng.integers(0, 9))
    a = build(rng, nv, depth - 1, ctx, stats)
    sc = SCALARS[int(rng.integers(0, len(SCALARS)))]
    scs = repr(sc)
    stats.setdefault("_nodes", []).append(a[0])
    if op == 0:
        stats["ops_neg"] += 1
        return -a[0], ("neg", a[1]), f"(-{a[2]})", a[3], a[4], a[5] + 1
    if op in (1, 2):
        b = build(rng, nv, depth - 1, ctx, stats)
        if op == 1:
            stats["ops_add"] += 1
            return a[0] + b[0], ("add", a[1], b[1]), f"({a[2]}+{b[2]})", a[3] + b[3], a[4] + b[4], max(a[5], b[5]) + 1
        stats["ops_sub"] += 1
        return a[0] - b[0], ("sub", a[1], b[1]), f"({a[2]}-{b[2]})", a[3] + b[3], a[4] + b[4], max(a[5], b[5]) + 1
    if op == 3:
        stats["ops_mul_left_scalar"] += 1
        return sc * a[0], ("mul", sc, a[1]), f"({scs}*{a[2]})", a[3], a[4] + 1, a[5] + 1
    if op == 4:
        stats["ops_mul_right_scalar"] += 1
        return a[0] * sc, ("mul", sc, a[1]), f"({a[2]}*{scs})", a[3], a[4] + 1, a[5] + 1
    if op == 5:
        stats["ops_radd"] += 1
        return sc + a[0], ("adds", sc, a[1]), f"({scs}+{a[2]})", a[3], a[4] + 1, a[5] + 1
    if op == 6:
        stats["ops_add_scalar"] += 1
        return a[0] + sc, ("adds", sc, a[1]), f"({a[2]}+{scs})", a[3], a[4] + 1, a[5] + 1
    if op == 7:
        stats["ops_rsub"] += 1
        return sc - a[0], ("rsubs", sc, a[1]), f"({scs}-{a[2]})", a[3], a[4] + 1, a[5] + 1
    stats["ops_sub_scalar"] += 1
    return a[0] - sc, ("subs", sc, a[1]), f"({a[2]}-{scs})", a[3], a[4] + 1, a[5] + 1


def interp(node, st, batch, cache):
    """returns (value vector, magnitude vector = sum of |terms|)"""
    k = node[0]
    if k == "leaf":
        key = id(node[1])
        if key not in cache:
            v = node[1].apply(st, batch.clone()).detach().numpy().astype(float)
            cache[key] = v
        v = cache[key]
        return v, np.abs(v)
    if k == "neg":
        v, m = interp(node[1], st, batch, cache)
        return -v, m
    if k in ("add", "sub"):
        v1, m1 = interp(node[1], st, batch, cache)
        v2, m2 = interp(node[2], st, batch, cache)
        return (v1 + v2 if k == "add" else v1 - v2), m1 + m2
    s = float(node[1])
    v, m = interp(node[2], st, batch, cache)
    if k == "mul":
        return s * v, abs(s) * m
    if k == "adds":
        return s + v, abs(s) + m
    if k == "rsubs":
        return s - v, abs(s) + m
    return v - s, abs(s) + m  # subs


def run_case(case, ctx):
    from collections import Counter

    if case["t"] == "reject":
        return rejections(case, ctx)
    if case["t"] == "exotic":
        return exotic(case, ctx)
    if case["t"] == "large":
        return large_batch(case, ctx)
    rng = np_rng(ID, case["seed"], case["rep"])
    kind = gen.KINDS[case["rep"] % 3]
    nv = int(rng.integers(2, 5))
    am, ph = gen.draw_model(rng, kind, nv, 2, 1, scales=[0.3, 0.8])
    st = gen.make_state(kind, am, ph)
    stats = Counter()
    depth = int(rng.integers(1, 7))
    try:
        comp, tree, canon, nleaves, nscal, d = build(rng, nv, depth, ctx, stats)
    except Exception as e:  # noqa: BLE001  building a LINEAR combination must succeed
        import traceback

        ctx.violation("valid-expression-rejected", f"building a linear combination raised {type(e).__name__}: {e}",
                      tags={"exc": type(e).__name__}, witness={"traceback": traceback.format_exc()[-1500:]})
        return
    nodes = stats.pop("_nodes", [])
    for k, v in stats.items():
        ctx.count(k, v)
    B = int(rng.integers(2, 8))
    batch = torch.tensor(R.space(nv)[rng.integers(0, 2 ** nv, size=B)], dtype=torch.double)
    keep = batch.clone()
    cache = {}
    want, mag = interp(tree, st, batch, cache)
    tags = {"depth": d}
    wit = {"expression": canon[:600]}
    ctx.count("trees_evaluated")
    if d == 0:
        return  # a bare leaf: nothing composite
    got = ctx.lib("composite.apply", comp.apply, st, batch, tags=tags)
    if isinstance(got, torch.Tensor):
        g = got.detach().numpy().astype(float)
        g = np.broadcast_to(g, want.shape) if g.shape == () else g
    else:
        g = np.full(want.shape, float(got))
    ctx.count("apply_vectors_compared")
    tol = 1e-12 * (mag + 1e-300) + 1e-300
    if g.shape != want.shape or np.any(np.abs(g - want) > tol):
        j = int(np.argmax(np.abs(g - want) - tol)) if g.shape == want.shape else 0
        ctx.violation("composite-value", f"composite {canon[:300]} evaluates to {g[j] if g.shape == want.shape else g.shape!r} on sample {j}; "
                      f"the same arithmetic on its leaves gives {want[j]!r}", tags=tags, witness=wit)
    if not torch.equal(batch, keep):
        ctx.violation("batch-modified", "composite.apply modified the batch", tags=tags)
    # history: building further expressions from the parts of an existing one (including the augmented-assignment
    # spellings, which Python maps to the binary operators unless a class mutates in place) must not change it
    if nodes and isinstance(got, torch.Tensor):
        from qucumber.observables import SigmaX as X_

        g_before = got.detach().clone()
        for nd in [nodes[int(rng.integers(0, len(nodes)))] for _ in range(3)]:
            t_ = nd
            t_ *= 3
            t_ += 1.5
            t_ -= nd
            t_ = -t_
            t2_ = 2 * nd
            t2_ *= -0.5
            # the node as the LEFT operand of further sums / differences (a sum that is extended must not grow in place)
            t3_ = nd + 1.5
            t4_ = nd - X_()
            t5_ = (nd + nd) + 2
        r1_ = comp + 2.5
        r2_ = comp - X_()
        r3_ = (comp + X_()) + comp
        again = ctx.lib("composite.apply(after building other expressions from its parts)", comp.apply, st, batch, tags=tags)
        ctx.count("immutability_checks")
        if not isinstance(again, torch.Tensor) or again.shape != g_before.shape or not torch.equal(again, g_before):
            ctx.violation("expression-mutated", f"composite {canon[:200]} changed value after new expressions were derived from its "
                          "parts (in-place mutation of a shared node)", tags=tags, witness=wit)
    if case["rep"] % 2 == 0:
        # history: the same composite object evaluated again on another batch of ANOTHER state
        kind2 = gen.KINDS[(case["rep"] + 1) % 3]
        am2, ph2 = gen.draw_model(rng, kind2, nv, 2, 1, scales=[0.3, 0.8])
        st2 = gen.make_state(kind2, am2, ph2)
        batch2 = torch.tensor(R.space(nv)[rng.integers(0, 2 ** nv, size=B)], dtype=torch.double)  # same shape: a shape-keyed cache is stale
        want2, mag2 = interp(tree, st2, batch2, {})
        got2 = ctx.lib("composite.apply(second state)", comp.apply, st2, batch2, tags=tags)
        g2 = got2.detach().numpy().astype(float) if isinstance(got2, torch.Tensor) else np.full(want2.shape, float(got2))
        g2 = np.broadcast_to(g2, want2.shape) if g2.shape == () else g2
        ctx.count("reuse_on_second_state_checks")
        if g2.shape != want2.shape or np.any(np.abs(g2 - want2) > 1e-12 * (mag2 + 1e-300) + 1e-300):
            ctx.violation("composite-value", f"composite {canon[:200]} re-used on a second state/batch does not evaluate to the arithmetic "
                          "on its leaves there", tags=dict(tags, reuse=True), witness=wit)
    sres = ctx.lib("composite.statistics_from_samples", comp.statistics_from_samples, st, batch, tags=tags)
    ctx.count("statistics_dicts_compared")
    wm = float(np.mean(want))
    wv = float(np.var(want, ddof=1))
    scale = float(np.max(mag)) + 1e-300
    ok = isinstance(sres, dict) and sres.get("num_samples") == B \
        and abs(sres["mean"] - wm) <= 1e-11 * scale and abs(sres["variance"] - wv) <= 1e-10 * scale * scale \
        and abs(sres["std_error"] - math.sqrt(wv / B)) <= 1e-10 * scale
    if not ok:
        ctx.violation("composite-statistics", f"statistics_from_samples of {canon[:200]} = {sres}; statistics of the combined per-sample "
                      f"value: mean {wm!r}, variance {wv!r}, n {B}", tags=tags, witness=wit)
    if case["rep"] % 3 == 0:
        # the Markov-chain route (streaming merge over several draws): statistics of the combined per-sample value over
        # every drawn sample, with the variance judged relative to itself (a large scalar addend must not swamp it)
        slog = []
        monitors.wrap_instance(st, "sample", slog)
        try:
            cres = ctx.lib("composite.statistics", comp.statistics, st, num_samples=int(rng.integers(6, 20)), num_chains=int(rng.integers(2, 5)),
                           burn_in=1, steps=1, tags=tags)
        finally:
            object.__delattr__(st, "sample")
        states = [ev_["result"] for ev_ in slog if isinstance(ev_.get("result"), torch.Tensor)]
        if states and isinstance(cres, dict):
            allv = np.concatenate([interp(tree, st, s_.clone(), {})[0] for s_ in states]).astype(float)
            cm, cv, cn = float(np.mean(allv)), float(np.var(allv, ddof=1)) if len(allv) > 1 else float("nan"), len(allv)
            sd_ = 0.0 if cv != cv else math.sqrt(max(cv, 0.0))
            ctx.count("chain_statistics_compared")
            vt = 1e-9 * ((0.0 if cv != cv else cv) + 1e-3 * abs(cm) * sd_ + 1e-18 * cm * cm + 1e-290)
            okc = cres.get("num_samples") == cn and abs(cres["mean"] - cm) <= 1e-9 * max(abs(cm), sd_, 1e-12) \
                and ((cv != cv and cres["variance"] != cres["variance"]) or abs(cres["variance"] - cv) <= vt)
            if not okc:
                ctx.violation("composite-statistics", f"statistics() of {canon[:200]} over {cn} drawn samples = {cres}; statistics of the "
                              f"combined per-sample value: mean {cm!r}, variance {cv!r}", tags=dict(tags, route="chains"), witness=wit)
        else:
            ctx.count("chain_statistics_unobservable")
    if d >= 2 and nscal >= 1 and nleaves >= 2:
        ctx.mark_nontrivial(canon)
    ctx.seen("depths", d)
    ctx.seen("kinds", kind)
    ctx.sample({"expression": canon[:200], "depth": d, "leaves": nleaves, "scalars": nscal,
                "values": np.round(want, 6).tolist()[:4]})


def large_batch(case, ctx):
    """A composite evaluated on a batch far larger than any unit test uses (several hundred thousand rows, sizes around
    powers of two): the value of row i is the arithmetic on the leaves' values for the SAME full batch - also for SWAP, whose
    value for a row depends on its neighbour in the batch, so evaluating the batch in pieces is not equivalent."""
    from qucumber.observables import SWAP, NeighbourInteraction, SigmaX, SigmaZ

    rng = np_rng(ID, case["seed"], "large", case["rep"])
    kind = gen.KINDS[case["rep"] % 3]
    nv = int(rng.integers(3, 6))
    am, ph = gen.draw_model(rng, kind, nv, 2, 1, scales=[0.5, 1.0])
    st = gen.make_state(kind, am, ph)
    B = [2 ** 20 // nv + 3, 300007, 2 ** 18 + 1, 2 ** 16 + 5][case["rep"] % 4]
    batch = torch.tensor(rng.integers(0, 2, size=(B, nv)), dtype=torch.double)
    # rows next to plausible block boundaries (powers of two, 2^20 entries / sites) and at the ends of the batch get distinct
    # configurations, so that a wrong neighbour there cannot coincide with the right one
    alt = torch.tensor([(j_ % 2) for j_ in range(nv)], dtype=torch.double)
    for cut in sorted({2 ** 14, 2 ** 15, 2 ** 16, 2 ** 17, 2 ** 18, 2 ** 19, 2 ** 20 // nv, 2 ** 19 // nv, 2 ** 18 // nv, 10 ** 5, 2 * 10 ** 5}):
        if 1 <= cut < B:
            batch[cut - 1] = 0.0
            batch[cut] = alt
    batch[0] = 1.0 - alt
    batch[B - 1] = 1.0
    A = sorted(rng.choice(nv, size=int(rng.integers(1, nv)), replace=False).tolist())
    comp = 1.5 * SWAP(A) - SigmaZ() + 0.25 if case["rep"] % 2 == 0 else 1 - (SWAP(A) + 2 * NeighbourInteraction(c=1)) - SigmaX() * 0.5
    got = ctx.lib("composite.apply(large batch)", comp.apply, st, batch, tags={"rows": B})
    sw, sz = SWAP(A).apply(st, batch).numpy(), SigmaZ().apply(st, batch).numpy()
    if case["rep"] % 2 == 0:
        want = 1.5 * sw - sz + 0.25
    else:
        want = 1 - (sw + 2 * NeighbourInteraction(c=1).apply(st, batch).numpy()) - SigmaX().apply(st, batch).numpy() * 0.5
    ctx.count("large_batches_evaluated")
    ctx.seen("large_batch_rows", B)
    g = got.detach().numpy()
    bad = np.abs(g - want) > 1e-11 * (1 + np.abs(want)) if g.shape == want.shape else np.array([True])
    if bad.any():
        j = int(np.argmax(bad))
        ctx.violation("composite-value", f"composite with a SWAP leaf on a batch of {B} rows: row {j} evaluates to "
                      f"{g[j] if g.shape == want.shape else g.shape!r}, the arithmetic on the leaves' values for the same batch gives {want[j] if g.shape == want.shape else want.shape!r} "
                      f"({int(bad.sum())} rows differ)", tags={"rows": B, "large_batch": True})
    ctx.mark_nontrivial(f"large:{B}:{case['rep']}")


def rejections(case, ctx):
    from qucumber.observables import NeighbourInteraction, SigmaX, SigmaZ

    X, Z = SigmaX(), SigmaZ()
    any_exc = Exception
    ctx.must_raise("Obs * Obs", any_exc, lambda: X * Z)
    ctx.must_raise("Obs * (Obs + 1)", any_exc, lambda: X * (Z + 1))
    ctx.must_raise("(2*Obs) * Obs", any_exc, lambda: (2 * X) * NeighbourInteraction())
    ctx.must_raise("Obs + str", any_exc, lambda: X + "a")
    ctx.must_raise("str + Obs", any_exc, lambda: "a" + X)
    ctx.must_raise("Obs - str", any_exc, lambda: X - "a")
    ctx.must_raise("Obs * None", any_exc, lambda: X * None)
    ctx.must_raise("None * Obs", any_exc, lambda: None * X)
    ctx.must_raise("Obs * 1j", any_exc, lambda: X * 1j)
    ctx.must_raise("1j + Obs", any_exc, lambda: 1j + X)
    ctx.must_raise("Obs + [1]", any_exc, lambda: X + [1])
    ctx.must_raise("Obs * tensor", any_exc, lambda: X * torch.tensor(2.0))
    ctx.must_raise("Obs + tensor", any_exc, lambda: X + torch.tensor([1.0, 2.0]))
    ctx.must_raise("Obs * dict", any_exc, lambda: X * {})
    ctx.mark_nontrivial("rejections")


def exotic(case, ctx):
    """Numeric scalars that are not Python int/float (numpy integers, float32, Fraction): the statement leaves open whether
    they are accepted, but not what an accepted one means - either the expression is refused when built, or it evaluates
    to the arithmetic on its parts."""
    import fractions

    from qucumber.observables import NeighbourInteraction, SigmaX, SigmaZ

    rng = np_rng(ID, case["seed"], "exotic", case["rep"])
    nv = 3
    am, ph = gen.draw_model(rng, "complex", nv, 2, 1, scales=[0.3, 0.8])
    st = gen.make_state("complex", am, ph)
    batch = torch.tensor(R.space(nv)[rng.integers(0, 8, size=5)], dtype=torch.double)
    leaf = [SigmaX(), SigmaZ(), NeighbourInteraction(c=1)][case["rep"] % 3]
    base = leaf.apply(st, batch.clone()).numpy().astype(float)
    scal = [np.int64(3), np.int32(-2), np.float32(0.5), np.arange(5)[2], fractions.Fraction(3, 4), np.float16(2.0),
            np.uint8(4), np.bool_(True)][case["rep"] % 8]
    forms = {"O+s": (lambda: leaf + scal, lambda v: v + float(scal)), "s+O": (lambda: scal + leaf, lambda v: float(scal) + v),
             "O-s": (lambda: leaf - scal, lambda v: v - float(scal)), "s-O": (lambda: scal - leaf, lambda v: float(scal) - v),
             "O*s": (lambda: leaf * scal, lambda v: v * float(scal)), "s*O": (lambda: scal * leaf, lambda v: float(scal) * v)}
    for name, (mk, ref) in forms.items():
        try:
            comp = mk()
        except Exception:  # noqa: BLE001  refused when built: fine
            ctx.count("exotic_scalars_refused")
            continue
        try:
            got = comp.apply(st, batch.clone())
        except Exception as e:  # noqa: BLE001
            ctx.violation("accepted-but-unusable", f"{name} with a {type(scal).__name__} scalar was accepted when built but apply raised "
                          f"{type(e).__name__}: {e}", tags={"form": name, "scalar_type": type(scal).__name__})
            continue
        ctx.count("exotic_scalars_accepted")
        g = got.detach().numpy().astype(float) if isinstance(got, torch.Tensor) else np.full(base.shape, float(got))
        want = ref(base)
        if g.shape != want.shape or np.any(np.abs(g - want) > 1e-6 * (1 + np.abs(want))):
            ctx.violation("composite-value", f"{name} with scalar {scal!r} ({type(scal).__name__}) was accepted but evaluates to "
                          f"{g[:3].tolist()} instead of {want[:3].tolist()}", tags={"form": name, "scalar_type": type(scal).__name__})
    ctx.mark_nontrivial(f"exotic:{case['rep']}")
    ctx.seen("exotic_scalar_types", type(scal).__name__)
