"""C02 - the reconstructed density matrix is a physical state.

Events: rho(space,space), rho(v,vp,expand=False) on all paired rows, rho(v1d,vp1d)
per ordered pair, rho(v) / rho(v,expand=False), probability, normalization.
Oracle: purification reference  rho = sum_a psi(.,a) psi(.,a)^dagger  with explicit
enumeration of hidden and auxiliary units (PSD by construction) + direct
Hermitian / PSD / diag / trace / call-form agreement monitors.
"""
import numpy as np
import torch

from vlib import gen, monitors, refmodel as R
from vlib.runner import np_rng

ID = "C02"
RULE = ("one case = one DensityMatrix model (num_visible, num_hidden, num_aux in 1..4; parameter tensors with "
        "independent scales from {1e-3..30}, random signs, rescaled into the legitimate exp range). Non-trivial: "
        "all weights and all visible/hidden/auxiliary biases of the amplitude network and all weights and "
        "visible/hidden biases of the phase network non-zero; distinct by sha256 of all parameter bytes.")
REQUIRED = ["states_used_before_with_other_parameters", "held_results_rechecked", "rho_entries_vs_purification", "paired_entries_compared", "scalar_pairs_compared",
            "psd_checks", "diag_entries_compared", "float_sanitizer_ops"]
ANCHOR_FILES = ["qucumber/nn_states/density_matrix.py", "qucumber/rbm/purification_rbm.py"]
REACH = [
    ("qucumber/nn_states/density_matrix.py", r"m_am = m_am\.unsqueeze_\(1\)", "pi expand branch"),
    ("qucumber/nn_states/density_matrix.py", r"imag = torch\.atan2", "pi"),
    ("qucumber/nn_states/density_matrix.py", r"return cplx\.make_complex\(self\.probability\(v\)\)",
     "rho(expand=False, vp=None)"),
    ("qucumber/rbm/purification_rbm.py", r"temp = torch\.dot\(v \+ sign \* vp", "gamma scalar branch"),
    ("qucumber/rbm/purification_rbm.py", r"temp = temp1\.unsqueeze_\(1\)", "gamma expand branch"),
    ("qucumber/rbm/purification_rbm.py", r"temp = temp1 \+ \(sign \* temp2\)", "gamma paired branch"),
    ("qucumber/rbm/purification_rbm.py", r"aux_term = F\.softplus", "effective_energy traced"),
]
ASSUMPTIONS = ["numpy float64/complex128 arithmetic and eigvalsh are correct",
               "softplus threshold approximation budgeted as 3e-9 per hidden/auxiliary unit"]
MIN_PER_WORKER = 6
TAU = 3e-9


def cases(tier, seed):
    reps = 5 if tier == "quick" else 1500
    out = []
    for nv in range(1, 5):
        for nh in range(1, 5):
            for na in range(1, 5):
                for r in range(reps):
                    out.append({"nv": nv, "nh": nh, "na": na, "rep": r, "cls": "generic", "seed": seed})
                for cls in ("moderate", "phase_aux_bias", "zero_U", "zero_phase"):
                    out.append({"nv": nv, "nh": nh, "na": na, "rep": 0, "cls": cls, "seed": seed})
    return out


def build(case):
    rng = np_rng(ID, case["seed"], case["nv"], case["nh"], case["na"], case["rep"], case["cls"])
    cls = case["cls"]
    scales = gen.SCALES_MODERATE if cls == "moderate" else gen.SCALES_FULL
    am, ph = gen.draw_model(rng, "mixed", case["nv"], case["nh"], case["na"], scales=scales,
                            phase_aux_bias=(cls == "phase_aux_bias"))
    if cls == "zero_U":
        am["U"] = np.zeros_like(am["U"])
    if cls == "zero_phase":
        ph = {k: np.zeros_like(v) for k, v in ph.items()}
    return rng, am, ph


def run_case(case, ctx):
    rng, am, ph = build(case)
    nv, nh, na = case["nv"], case["nh"], case["na"]
    if case["rep"] % 2:
        def warm(s_):
            sp_ = s_.generate_hilbert_space()
            s_.rho(sp_, sp_), s_.rho(sp_[0], sp_[-1]), s_.rho(sp_, sp_, expand=False), s_.probability(sp_), s_.normalization(sp_)
        st, how = gen.make_state_used(rng, "mixed", am, ph, warm)
        ctx.count("states_used_before_with_other_parameters")
        ctx.seen("parameter_change_idioms", how)
    else:
        st = gen.make_state("mixed", am, ph)
    V = R.space(nv)
    N = len(V)
    sp = ctx.lib("generate_hilbert_space", st.generate_hilbert_space)
    if tuple(sp.shape) != V.shape:
        ctx.violation("shape", f"generate_hilbert_space shape {tuple(sp.shape)}")
        return
    rho_ref, S = R.density_matrix(am, ph, nv)
    tau = 2 * gen.tau_sp(nv, am, ph) + 1e-11
    ctx.seen("softplus_budget_in_force", tau > 1e-11)
    wit = {"am": gen.small_params(am), "ph": gen.small_params(ph)}

    use_san = case["rep"] % 3 == 0
    mon = monitors.DispatchMonitor(float_check=True) if use_san else None
    if mon:
        mon.__enter__()
    try:
        full = ctx.lib("rho(space,space)", st.rho, sp, sp)
        vrep = sp.repeat_interleave(N, dim=0)
        vtil = sp.repeat(N, 1)
        paired = ctx.lib("rho(v,vp,expand=False)", st.rho, vrep, vtil, expand=False)
        prob = ctx.lib("probability", st.probability, sp)
        Z = ctx.lib("normalization", st.normalization, sp)
    finally:
        if mon:
            mon.__exit__(None, None, None)
    if mon:
        ctx.count("float_sanitizer_ops", mon.ops)
        for nf in mon.nonfinite:
            ctx.violation("nonfinite", f"non-finite output of {nf['op']} from finite inputs inside the "
                          "parameter range", tags={"op": nf["op"]}, witness=nf)
    if tuple(full.shape) != (2, N, N) or tuple(paired.shape) != (2, N * N) or tuple(prob.shape) != (N,):
        ctx.violation("shape", f"shapes rho={tuple(full.shape)} paired={tuple(paired.shape)} prob={tuple(prob.shape)}")
        return
    rl = gen.dec(full)
    pl = gen.dec(paired).reshape(N, N)
    prob_l = prob.numpy().astype(float)
    Z_l = float(Z)

    # (1) entry for entry the partial trace of the purified state
    d = np.abs(rl - rho_ref)
    ctx.count("rho_entries_vs_purification", N * N)
    if np.any(d > tau * S):
        i, j = np.unravel_index(int(np.argmax(d - tau * S)), d.shape)
        ctx.violation("rho-vs-purification",
                      f"rho[{i},{j}]={rl[i,j]!r} but partial trace of the purified state gives {rho_ref[i,j]!r} "
                      f"(|diff|={d[i,j]:.3e}, tol={tau*S[i,j]:.1e})", witness=wit)
    # (2) Hermitian, PSD
    h = np.abs(rl - rl.conj().T)
    if np.any(h > 1e-12 * S):
        i, j = np.unravel_index(int(np.argmax(h - 1e-12 * S)), h.shape)
        ctx.violation("not-hermitian", f"rho[{i},{j}]={rl[i,j]!r} rho[{j},{i}]={rl[j,i]!r}", witness=wit)
    tr = float(np.real(np.trace(rl)))
    ev = np.linalg.eigvalsh((rl + rl.conj().T) / 2)
    ctx.count("psd_checks")
    if ev.min() < -(tau + 1e-10) * abs(tr):
        ctx.violation("not-psd", f"min eigenvalue {ev.min():.3e} with trace {tr:.3e}", witness=wit)
    # (3) diagonal = reported probabilities; trace = normalisation
    dg = np.real(np.diag(rl))
    ctx.count("diag_entries_compared", N)
    if np.any(np.abs(dg - prob_l) > tau * np.abs(prob_l)) or np.any(np.abs(np.imag(np.diag(rl))) > 1e-12 * dg):
        i = int(np.argmax(np.abs(dg - prob_l) / np.abs(prob_l)))
        ctx.violation("diag-vs-probability", f"rho[{i},{i}]={rl[i,i]!r} but probability={prob_l[i]!r}", witness=wit)
    pref = np.real(np.diag(rho_ref))
    if np.any(np.abs(prob_l - pref) > tau * pref):
        i = int(np.argmax(np.abs(prob_l - pref) / pref))
        ctx.violation("probability-vs-reference", f"probability[{i}]={prob_l[i]!r}, reference {pref[i]!r}", witness=wit)
    if not abs(Z_l - tr) <= tau * abs(tr):
        ctx.violation("trace-vs-normalization", f"trace={tr!r} normalization={Z_l!r}", witness=wit)
    if not abs(Z_l - float(np.sum(prob_l))) <= 1e-11 * Z_l:
        ctx.violation("normalization-vs-sum", f"normalization={Z_l!r}, sum of probabilities {float(np.sum(prob_l))!r}",
                      witness=wit)
    if N > 1:
        operm = [np.arange(N)[::-1].copy(), np.array([int(format(i_, f"0{nv}b")[::-1], 2) for i_ in range(N)]), rng.permutation(N)][int(rng.integers(0, 3))]
        psp, pform = gen.memory_form(sp[operm.tolist()].clone(), rng)
        Zp = float(ctx.lib("normalization(permuted space)", st.normalization, psp, tags={"memory_form": pform}))
        ctx.count("normalisations_of_permuted_spaces")
        if not abs(Zp - Z_l) <= 1e-11 * abs(Z_l):
            ctx.violation("normalization-depends-on-row-order", f"normalization of the full basis listed in another order ({operm.tolist()[:8]}.., "
                          f"{pform}) = {Zp!r}, in counting order {Z_l!r}", witness=wit)
    for zname, zarg in (("tensor", Z), ("float", float(Z_l)), ("numpy.float64", np.float64(Z_l))):
        pn = ctx.lib(f"probability(Z as {zname})", st.probability, sp, zarg, tags={"Z_form": zname}).numpy()
        if np.any(np.abs(pn - prob_l / Z_l) > 1e-12 * (prob_l / Z_l) + 1e-300) or abs(float(pn.sum()) - 1) > 1e-10:
            ctx.violation("normalised-probability", f"probability(v, Z) with Z given as {zname} is not probability(v)/Z "
                          f"(sum {float(pn.sum())!r})", tags={"Z_form": zname}, witness=wit)
    # (4) call forms agree
    ctx.count("paired_entries_compared", N * N)
    e = np.abs(pl - rl)
    if np.any(e > 1e-12 * S):
        i, j = np.unravel_index(int(np.argmax(e - 1e-12 * S)), e.shape)
        ctx.violation("paired-form-disagrees", f"rho(v,vp,expand=False) entry ({i},{j})={pl[i,j]!r} but matrix form "
                      f"gives {rl[i,j]!r}", witness=wit)
    pairs = [(i, j) for i in range(N) for j in range(N)]
    if len(pairs) > 16:
        sel = rng.choice(len(pairs), size=14, replace=False)
        pairs = [pairs[k] for k in sel] + [(0, N - 1), (N - 1, 0)]
    for i, j in pairs:
        a, b = sp[i].clone(), sp[j].clone()
        s = ctx.lib("rho(v1d,vp1d)", st.rho, a, b)
        ctx.count("scalar_pairs_compared")
        if s.numel() != 2:
            ctx.violation("shape", f"rho(1d,1d) returned shape {tuple(s.shape)}")
            break
        z = complex(float(s.reshape(-1)[0]), float(s.reshape(-1)[1]))
        if abs(z - rl[i, j]) > 1e-12 * S[i, j]:
            ctx.violation("scalar-form-disagrees", f"rho(v{i},v{j})={z!r} but matrix form gives {rl[i,j]!r}", witness=wit)
            break
        s2 = gen.dec(ctx.lib("rho(v1d,vp1d,expand=False)", st.rho, a, b, expand=False).reshape(2, -1))[0]
        if abs(s2 - rl[i, j]) > 1e-12 * S[i, j]:
            ctx.violation("scalar-form-disagrees", f"rho(v{i},v{j},expand=False)={s2!r} vs {rl[i,j]!r}", witness=wit)
            break
        if not (torch.equal(a, sp[i]) and torch.equal(b, sp[j])):
            ctx.violation("input-mutated", "rho(1d,1d) modified its arguments")
    # rectangular blocks over arbitrary (unordered, repeated, one-row, all-equal) row and column sets held in other
    # memory forms, and the same tensor object for both arguments: the entry belongs to the pair of basis states
    for rep_ in range(4):
        mi, mj = [(1, int(rng.integers(1, N + 2))), (int(rng.integers(2, 2 * N + 1)), int(rng.integers(1, N + 2))), (3, 3),
                  (int(rng.integers(2, N + 1)),) * 2][rep_]
        ii, jj = rng.integers(0, N, size=mi), rng.integers(0, N, size=mj)
        if rep_ == 2:
            ii[:] = ii[0]
        if rep_ == 3:  # pairwise distinct rows / columns in no particular order
            ii, jj = rng.permutation(N)[:mi], rng.permutation(N)[:mj]
        a, fa = gen.memory_form(sp[ii.tolist()].clone(), rng)
        if rep_ == 2:
            b, fb, jj = a, fa, ii  # rho(v, v) with the very same object
        else:
            b, fb = gen.memory_form(sp[jj.tolist()].clone(), rng)
        ka, kb = a.clone(), b.clone()
        blk = ctx.lib("rho(block)", st.rho, a, b, tags={"memory_forms": f"{fa}/{fb}"})
        ctx.count("arbitrary_blocks_compared")
        ctx.seen("memory_forms", fa)
        if tuple(blk.shape) != (2, mi, mj):
            ctx.violation("shape", f"rho of a {mi}-row and a {mj}-row batch returned shape {tuple(blk.shape)}")
            break
        bl = gen.dec(blk)
        want = rl[np.ix_(ii, jj)]
        if np.any(np.abs(bl - want) > 1e-12 * S[np.ix_(ii, jj)]):
            p_, q_ = np.unravel_index(int(np.argmax(np.abs(bl - want) - 1e-12 * S[np.ix_(ii, jj)])), want.shape)
            ctx.violation("block-position-dependence", f"rho(rows {ii.tolist()} [{fa}], cols {jj.tolist()} [{fb}]) entry ({p_},{q_}) = {bl[p_, q_]!r} "
                          f"but the ordered matrix has {want[p_, q_]!r}", tags={"memory_forms": f"{fa}/{fb}"},
                          witness=dict(wit, rows=ii.tolist(), cols=jj.tolist()))
            break
        if mi == mj:
            pd = gen.dec(ctx.lib("rho(block,expand=False)", st.rho, a, b, expand=False, tags={"memory_forms": f"{fa}/{fb}"})).reshape(-1)
            wantd = rl[ii, jj]
            if pd.shape != wantd.shape or np.any(np.abs(pd - wantd) > 1e-12 * S[ii, jj]):
                ctx.violation("block-position-dependence", f"rho(rows {ii.tolist()}, rows' {jj.tolist()}, expand=False) = {pd!r} but the ordered "
                              f"matrix has {wantd!r}", tags={"memory_forms": f"{fa}/{fb}"}, witness=dict(wit, rows=ii.tolist(), cols=jj.tolist()))
                break
        if not (torch.equal(a, ka) and torch.equal(b, kb)):
            ctx.violation("input-mutated", f"rho modified a {fa}/{fb} argument")
            break
    ctx.count("held_results_rechecked", 3)
    if not (np.array_equal(gen.dec(full), rl) and np.array_equal(gen.dec(paired).reshape(N, N), pl) and np.array_equal(prob.numpy(), prob_l)):
        ctx.violation("earlier-result-clobbered", "a tensor returned by rho/probability changed during later calls")
    r1 = gen.dec(ctx.lib("rho(space)", st.rho, sp))
    if r1.shape != rl.shape or np.any(np.abs(r1 - rl) > 1e-12 * S):
        ctx.violation("default-vp-form-disagrees", "rho(space) != rho(space, space)", witness=wit)
    r2 = gen.dec(ctx.lib("rho(space,expand=False)", st.rho, sp, expand=False))
    if r2.shape != (N,) or np.any(np.abs(r2 - dg) > tau * dg):
        ctx.violation("diag-form-disagrees", "rho(space, expand=False) != diagonal of rho", witness=wit)
    ctx.count("alt_forms_compared", 2)

    if gen.all_nonzero(am, {k: v for k, v in ph.items() if k != "d"}):
        ctx.mark_nontrivial(gen.model_digest("mixed", am, ph))
    ctx.seen("architectures", (nv, nh, na))
    ctx.seen("classes", case["cls"])
    offd = np.abs(rl - np.diag(np.diag(rl))).max() / max(tr, 1e-300)
    ctx.seen("offdiag_over_trace_decade", int(np.floor(np.log10(offd + 1e-30))))
    gen.scribble_spaces(st, nv)  # tensors handed out are the caller's: nothing later may depend on them
    ctx.sample({"case": case, "am": gen.small_params(am), "ph": gen.small_params(ph), "trace": tr,
                "min_eig_over_trace": float(ev.min() / tr), "purity": float(np.real(np.trace((rl / tr) @ (rl / tr))))})  # normalised first: tr**2 overflows for traces near 1e200
