"""C18 - early stopping halts exactly when its documented convergence rule is met.

Events: the epoch at which fit returns (recorder callback), last_epoch,
stop_training, for scripted value sequences delivered through a real
MetricEvaluator (metric function returning the scripted value) or a real
ObservableEvaluator (its system.statistics returning scripted mean/variance),
inside a real fit of a tiny model.
Oracle: reference decision procedure in extended reals.
"""
import itertools
import math
import warnings

import numpy as np
import torch

from vlib import gen, monitors, trainrec
from vlib.runner import np_rng

ID = "C18"
RULE = ("one case = one fit() of a tiny model with (value sequence from {monotone, geometric, oscillating, constant, with exact "
        "zeros, plateau-then-jump, random}, patience 1..5, evaluator period x stopper period in {1,2,3}^2, tolerance in "
        "{0,1e-12,0.1,1,inf}, criterion in {relative, absolute, variance}, evaluator kind); thorough additionally enumerates all "
        "sequences over a 4-value alphabet of length <= 7 for patience <= 2. Non-trivial: >= patience+1 evaluations happen (the "
        "rule is consulted); distinct by (sequence, patience, periods, criterion, tolerance).")
REQUIRED = ["runs_with_a_second_unsatisfiable_stopper", "fits", "decisions_compared", "stops_observed", "runs_to_completion", "criterion_relative", "criterion_absolute",
            "criterion_variance", "metric_evaluator_runs", "observable_evaluator_runs", "deprecated_class_runs",
            "rejections_observed", "patience_gate_exercised"]
ANCHOR_FILES = ["qucumber/callbacks/early_stopping.py", "qucumber/callbacks/variance_based_early_stopping.py"]
REACH = [
    ("qucumber/callbacks/early_stopping.py", r"relative_change = self\._change_in_metric\(\) / self\.value_getter", "_relative_change"),
    ("qucumber/callbacks/early_stopping.py", r"return abs\(self\._change_in_metric\(\)\)$", "_absolute_change"),
    ("qucumber/callbacks/early_stopping.py", r"return abs\(self\._change_in_metric\(\)\) / np\.sqrt\(", "_variance_scaled_abs_change"),
    ("qucumber/callbacks/early_stopping.py", r"\"Can't use a variance based convergence criterion \"", "variance+MetricEvaluator guard"),
    ("qucumber/callbacks/variance_based_early_stopping.py", r"criterion=\"variance\"", "deprecated class"),
    ("qucumber/callbacks/early_stopping.py", r"self\.last_epoch = epoch", "stop branch"),
]
EXHAUSTIVE_NOTE = "thorough: all 4^L sequences (L<=7) over the alphabet {0, 1, 1.05, -1} for patience 1 and 2 and all three criteria"
ASSUMPTIONS = ["the evaluator precedes the stopper in the callback list (documented usage)",
               "x/0 = inf for x != 0 (no stop); 0/0 is unspecified: either outcome is accepted and followed"]
MIN_PER_WORKER = 20
TOLS = [0.0, 1e-12, 0.1, 1.0, float("inf")]
CRITS = ["relative", "absolute", "variance"]
ALPHA = [0.0, 1.0, 1.05, -1.0]


def seq_of(rng, cls, L):
    if cls == "monotone":
        x = np.cumsum(rng.uniform(0.01, 1.0, size=L)) * rng.choice([-1, 1])
    elif cls == "geometric":
        x = 3.0 * (0.5 ** np.arange(L)) + rng.choice([0.0, 1.0])
    elif cls == "oscillating":
        x = rng.uniform(0.5, 2) * (-1.0) ** np.arange(L) * (0.8 ** np.arange(L))
    elif cls == "constant":
        x = np.full(L, float(rng.choice([0.0, 1.0, -2.5])))
    elif cls == "zeros":
        x = rng.choice([0.0, 0.0, 1.0, -1.0, 0.05], size=L)
    elif cls == "plateau":
        x = np.concatenate([np.full(L // 2, 1.0), np.full(L - L // 2, 5.0)]) + rng.normal(size=L) * 1e-3
    elif cls == "nan":
        # a diverged metric: NaN evaluations among ordinary ones (a NaN deviation is not below any tolerance)
        x = rng.normal(size=L)
        x[rng.random(size=L) < 0.4] = float("nan")
        if not np.isnan(x).any():
            x[int(rng.integers(0, L))] = float("nan")
    elif cls == "fine":
        # increments far below single precision: values must be compared as the doubles they are
        x = float(rng.choice([1.0, 1000.0, -3.0])) * (1.0 + 1e-10 * np.arange(L) * (1 + rng.integers(0, 3)))
    else:
        x = rng.normal(size=L)
    return [float(v) for v in x]


def cases(tier, seed):
    out = []
    rng = np_rng(ID, seed, "cases")
    n = 600 if tier == "quick" else 60000
    classes = ["monotone", "geometric", "oscillating", "constant", "zeros", "plateau", "random", "fine", "nan"]
    for i in range(n):
        L = int(rng.integers(2, 13))
        cls = classes[i % len(classes)]
        vals = seq_of(rng, cls, L)
        var = [float(v) for v in rng.choice([0.0, 0.01, 1.0, 4.0], size=L, p=[0.1, 0.3, 0.3, 0.3])]
        crit = CRITS[(i // len(classes)) % 3]
        tol = TOLS[int(rng.integers(0, len(TOLS)))]
        if cls == "fine":
            tol = float(rng.choice([1e-12, 1e-13, 3e-11]))
        out.append({"t": "run", "vals": vals, "vars": var, "p": int(rng.integers(1, 6)), "pe": int(rng.integers(1, 4)),
                    "ps": int(rng.integers(1, 4)), "tol": tol, "crit": crit,
                    "ev": "obs" if crit == "variance" or rng.random() < 0.4 else "metric", "dep": crit == "variance" and i % 2 == 0,
                    "cls": cls, "seed": seed, "start": int(rng.choice([1, 1, 2, 5]))})
    out.append({"t": "ctor", "seed": seed})
    if tier == "thorough":
        for L in range(1, 8):
            for vals in itertools.product(range(4), repeat=L):
                for p in (1, 2):
                    for crit in CRITS:
                        out.append({"t": "run", "vals": [ALPHA[v] for v in vals], "vars": [1.0] * L, "p": p, "pe": 1, "ps": 1,
                                    "tol": 0.1, "crit": crit, "ev": "obs" if crit == "variance" else "metric", "dep": False,
                                    "cls": "enumerated", "seed": seed})
    return out


def deviation(crit, cur, ref, var_ref):
    """extended-real deviation; returns ('val', x) or ('undefined', None)"""
    if cur != cur or ref != ref:
        return "nan", None  # a NaN evaluation has no deviation "below the tolerance": no stop
    d = abs(ref - cur)
    if crit == "absolute":
        return "val", d
    den = abs(ref) if crit == "relative" else (math.sqrt(var_ref) if var_ref >= 0 else float("nan"))
    if den == 0:
        return ("undefined", None) if d == 0 else ("val", float("inf"))
    return "val", d / den


def run_case(case, ctx):
    from qucumber.callbacks import EarlyStopping, MetricEvaluator, ObservableEvaluator, VarianceBasedEarlyStopping
    from qucumber.nn_states import PositiveWaveFunction
    from qucumber.observables import SigmaZ

    if case["t"] == "ctor":
        me = MetricEvaluator(1, {"m": lambda s: 0.0})
        oe = ObservableEvaluator(1, [SigmaZ()], num_samples=2)
        ctx.must_raise("EarlyStopping(variance, MetricEvaluator)", TypeError, EarlyStopping, 1, 0.1, 2, me, "m", criterion="variance")
        ctx.must_raise("EarlyStopping( Variance , MetricEvaluator)", TypeError, EarlyStopping, 1, 0.1, 2, me, "m", criterion=" Variance ")
        with warnings.catch_warnings():
            warnings.simplefilter("ignore")
            ctx.must_raise("VarianceBasedEarlyStopping(MetricEvaluator)", TypeError, VarianceBasedEarlyStopping, 1, 0.1, 2, me, "m")
        ctx.must_raise("EarlyStopping(unknown criterion)", ValueError, EarlyStopping, 1, 0.1, 2, oe, "SigmaZ", criterion="median")
        ctx.must_raise("EarlyStopping(not an evaluator)", TypeError, EarlyStopping, 1, 0.1, 2, object(), "m")
        ctx.mark_nontrivial("ctor")
        return
    vals, vrs, p, pe, ps, tol, crit = case["vals"], case["vars"], case["p"], case["pe"], case["ps"], case["tol"], case["crit"]
    L = len(vals)
    start = case.get("start", 1)
    epochs = start - 1 + L * pe  # index of the last epoch; training may resume at a later epoch index
    st = PositiveWaveFunction(2, 1, gpu=False)
    data = torch.tensor([[0.0, 1.0], [1.0, 1.0]], dtype=torch.double)
    calls = {"n": 0}
    if case["ev"] == "metric":
        def metric(nn_state, **kw):
            v = vals[min(calls["n"], L - 1)]
            calls["n"] += 1
            return v

        ev = MetricEvaluator(pe, {"m": metric})
        name = "m"
        ctx.count("metric_evaluator_runs")
    else:
        ev = ObservableEvaluator(pe, [SigmaZ()], num_samples=4)
        name = "SigmaZ"

        def stats(nn_state, **kw):
            i = min(calls["n"], L - 1)
            calls["n"] += 1
            return {"SigmaZ": {"mean": vals[i], "variance": vrs[i], "std_error": math.sqrt(vrs[i] / 4), "num_samples": 4}}

        ev.system.statistics = stats
        ctx.count("observable_evaluator_runs")
    tags = {"criterion": crit, "evaluator": case["ev"], "patience": p}
    with warnings.catch_warnings(record=True) as wl:
        warnings.simplefilter("always")
        if case["dep"]:
            es = ctx.lib("VarianceBasedEarlyStopping", VarianceBasedEarlyStopping, ps, tol, p, ev, name, tags=tags)
            ctx.count("deprecated_class_runs")
            if not any(issubclass(w.category, DeprecationWarning) for w in wl):
                ctx.count("deprecated_class_did_not_warn")
        else:
            es = ctx.lib("EarlyStopping", EarlyStopping, ps, tol, p, ev, name, criterion=crit, tags=tags)
    ctx.count("criterion_" + crit)
    # a second stopper that can never be satisfied (deviation < 0 is impossible), listed AFTER the one under test: it must
    # not take back the first one's stop request
    extra = []
    if (len(vals) + p + pe) % 3 == 0:
        extra = [EarlyStopping(1, 0.0, 1, ev, name, criterion="absolute")]
        ctx.count("runs_with_a_second_unsatisfiable_stopper")
    # user code between the evaluator and the stopper that edits the dict handed out as `last` (rounding it for display,
    # say): the stopper decides on the recorded evaluations, which such an edit must not rewrite
    if case["ev"] == "metric" and (L + p) % 2 == 1:
        from qucumber.callbacks import LambdaCallback

        def _tamper(s_, e_):
            last_ = getattr(ev, "last", None)
            if isinstance(last_, dict):
                for k_ in list(last_):
                    last_[k_] = 123.0
        extra = [LambdaCallback(on_epoch_end=_tamper)] + extra
        ctx.count("runs_with_last_dict_edited_by_user_code")
    log = trainrec.Log()
    rec = trainrec.recorder_callback(log, digest_params=False)
    # ---- reference decision procedure, step by step (so that an unspecified 0/0 can follow the library)
    E = []
    decisions = []  # (epoch, 'stop' | 'continue' | 'either')
    for e in range(start, epochs + 1):
        if e % pe == 0:
            E.append((vals[len(E)], vrs[len(E)]))
        if e % ps == 0:
            if len(E) >= p + 1:
                kind_, dv = deviation(crit, E[-1][0], E[-1 - p][0], E[-1 - p][1])
                if kind_ == "nan":
                    decisions.append((e, "continue"))
                elif kind_ == "undefined" or (dv is not None and math.isnan(dv)):
                    decisions.append((e, "either"))
                else:
                    decisions.append((e, "stop" if dv < tol else "continue"))
            else:
                decisions.append((e, "continue-gate"))
    ref_zero = False
    exc_tags = dict(tags)
    # does the run meet a zero reference under the relative criterion before any stop?  (for known-finding tagging)
    Esim = []
    for e in range(start, epochs + 1):
        if e % pe == 0:
            Esim.append(vals[len(Esim)])
        if e % ps == 0 and len(Esim) >= p + 1 and crit == "relative" and Esim[-1 - p] == 0:
            ref_zero = True
    exc_tags["ref_zero"] = ref_zero
    with warnings.catch_warnings():
        warnings.simplefilter("ignore")
        ctx.lib("fit", st.fit, data, epochs=epochs, starting_epoch=start, pos_batch_size=2, lr=0.01, callbacks=[ev, es] + extra + [rec], tags=exc_tags,
                exc_tagger=lambda e, tb: {"raised_in": "_relative_change" if "_relative_change" in tb.splitlines()[-3] + tb.splitlines()[-4]
                                          else "elsewhere"})
    ctx.count("fits")
    if calls["n"] == 0 and any(e["type"] == "cb" and e["event"] == "epoch_end" and e["epoch"] % pe == 0 for e in log):
        ctx.count("scripted_values_not_delivered")  # the evaluator no longer obtains its values through the stubbed call
        return
    ended = [e["epoch"] for e in log if e["type"] == "cb" and e["event"] == "epoch_end"]
    last = ended[-1] if ended else None
    stopped = bool(st.stop_training)
    # walk the decisions
    expect_stop = None
    for e, d in decisions:
        if d == "continue-gate":
            ctx.count("patience_gate_exercised")
        ctx.count("decisions_compared")
        if d == "stop":
            expect_stop = e
            break
        if d == "either":
            if stopped and last == e:
                expect_stop = e
                break
            continue
    wit = {"values": vals, "variances": vrs if crit == "variance" else None, "patience": p, "evaluator_period": pe,
           "stopper_period": ps, "tolerance": tol, "criterion": crit, "decisions": decisions[:20]}
    if expect_stop is None:
        ctx.count("runs_to_completion")
        if stopped or last != epochs or es.last_epoch is not None:
            reason = None
            if stopped and last is not None:
                # explain: which comparison would make the library's stop at `last` legitimate?
                n_at = sum(1 for q in range(start, last + 1) if q % pe == 0)
                reason = f"stopped at epoch {last} with {n_at} evaluations (patience {p})"
            ctx.violation("stopped-too-early", f"training stopped ({reason}; last_epoch={es.last_epoch}) although the {crit} deviation between an "
                          f"evaluation and the one {p} evaluations earlier was never below {tol}", tags=dict(tags, evals_at_stop_le_patience=bool(
                              stopped and last is not None and sum(1 for q in range(start, last + 1) if q % pe == 0) <= p)), witness=wit)
    else:
        ctx.count("stops_observed")
        if not stopped or last != expect_stop or es.last_epoch != expect_stop:
            if stopped and last is not None and last < expect_stop:
                n_at = sum(1 for q in range(start, last + 1) if q % pe == 0)
                ctx.violation("stopped-too-early", f"training stopped at epoch {last} ({n_at} evaluations, patience {p}); the rule is first met at "
                              f"epoch {expect_stop}", tags=dict(tags, evals_at_stop_le_patience=n_at <= p), witness=wit)
            else:
                ctx.violation("stopped-too-late", f"the rule is first met at epoch {expect_stop}; training ended at epoch {last} "
                              f"(stop_training={stopped}, last_epoch={es.last_epoch})", tags=tags, witness=wit)
    # ---- a second fit with the SAME evaluator and stopper objects, epoch numbers starting over: the evaluator's history
    # continues, so "p evaluations earlier" reaches back into the first run
    if expect_stop is None and not stopped and last == epochs and (L + p + ps) % 2 == 0 \
            and not any(d == "either" for _, d in decisions):
        L1 = L
        vals.extend(vals[:L1][::-1])
        vrs.extend(vrs[:L1][::-1])
        L = len(vals)
        E2 = list(E)
        expect2, skip2 = None, False
        for e in range(start, epochs + 1):
            if e % pe == 0:
                E2.append((vals[min(len(E2), L - 1)], vrs[min(len(E2), L - 1)]))
            if e % ps == 0 and len(E2) >= p + 1:
                if crit == "relative" and E2[-1 - p][0] == 0:
                    skip2 = True  # F9 territory (zero reference): not part of this scenario
                    break
                kind_, dv = deviation(crit, E2[-1][0], E2[-1 - p][0], E2[-1 - p][1])
                if kind_ == "nan":
                    continue
                if kind_ == "undefined" or (dv is not None and math.isnan(dv)):
                    skip2 = True
                    break
                if dv < tol:
                    expect2 = e
                    break
        if not skip2:
            n0 = len(log)
            with warnings.catch_warnings():
                warnings.simplefilter("ignore")
                ctx.lib("fit(second run, same callbacks)", st.fit, data, epochs=epochs, starting_epoch=start, pos_batch_size=2, lr=0.01,
                        callbacks=[ev, es] + extra + [rec], tags=dict(tags, ref_zero=False))
            ctx.count("second_runs_with_the_same_callbacks")
            ended2 = [e["epoch"] for e in list(log)[n0:] if e["type"] == "cb" and e["event"] == "epoch_end"]
            last2 = ended2[-1] if ended2 else None
            stopped2 = bool(st.stop_training)
            wit2 = dict(wit, values=list(vals), second_run=True, evaluations_before_second_run=len(E))
            if expect2 is None:
                if stopped2 or last2 != epochs:
                    ctx.violation("stopped-too-early", f"second run with the same evaluator/stopper objects stopped at epoch {last2} although the "
                                  f"{crit} deviation from the evaluation {p} evaluations earlier (counting the first run's) was never below {tol}",
                                  tags=dict(tags, second_run=True), witness=wit2)
            elif not stopped2 or last2 != expect2:
                ctx.violation("stopped-too-late" if (last2 or 0) >= expect2 else "stopped-too-early",
                              f"second run with the same evaluator/stopper objects: the rule is first met at epoch {expect2} (history continues from "
                              f"the first run's {len(E)} evaluations); training ended at epoch {last2} (stop_training={stopped2})",
                              tags=dict(tags, second_run=True), witness=wit2)
    nev = sum(1 for q in range(start, (last or 0) + 1) if q % pe == 0)
    ctx.seen("starting_epochs", start)
    if nev >= p + 1:
        ctx.mark_nontrivial(monitors.digest([vals, vrs if crit == "variance" else 0, p, pe, ps, tol, crit, case["ev"]]))
    ctx.seen("patience", p)
    ctx.seen("periods", (pe, ps))
    ctx.seen("tolerances", tol)
    ctx.seen("sequence_classes", case["cls"])
    ctx.sample({"values": vals[:8], "patience": p, "periods": [pe, ps], "tolerance": tol, "criterion": crit,
                "stopped_at": last if stopped else None, "expected": expect_stop})
