#!/venv/bin/python
"""Regenerates /verif/MANIFEST.json from the table below and validates it
against /root/.vp/MANIFEST.schema.json (when jsonschema is importable)."""
import json
import os
import sys

VERIF = os.path.dirname(os.path.dirname(os.path.abspath(__file__)))
PROPS = [json.loads(l) for l in open(os.path.join(VERIF, "properties.jsonl"))]

# id -> (technique, level text, level note, design ref)
CHECKS = {
    "C01": (
        "runtime value monitor vs enumerated-marginal reference model + metamorphic monitors + ATen float sanitizer",
        "Runs psi/amplitude/phase/probability/normalization of the real classes on generated models over every "
        "architecture of the quantifier (1..5 x 1..6), parameter scales up to 30, every basis state, batched and "
        "1-D call forms, and compares each returned value with a hidden-state enumeration that shares no code with "
        "the library. Held = held on the executions produced (hundreds quick / tens of thousands thorough), not a proof.",
        "Trusted: CPython, numpy/torch float64 kernels. Softplus threshold approximation budgeted (3e-9 per hidden unit).",
        "DESIGN.md 3 C01",
    ),
    "C02": (
        "runtime value monitor vs purification-by-enumeration reference + Hermitian/PSD/diag/trace/call-form monitors + ATen float sanitizer",
        "Runs rho (matrix, paired-vector and scalar call forms), probability and normalization of the real DensityMatrix on "
        "generated models over all 64 architectures (1..4)^3 with parameter scales up to 30 and compares every entry with "
        "sum_a psi(.,a)psi(.,a)^dagger obtained by enumerating hidden and auxiliary units, plus direct Hermitian / PSD / "
        "diagonal / trace monitors. Held on the executions produced, not a proof.",
        "Trusted: numpy complex128 arithmetic, eigvalsh. Softplus threshold approximation budgeted (3e-9 per unit).",
        "DESIGN.md 3 C02",
    ),
    "C04": (
        "runtime contracts (postconditions vs dense Kronecker product) on the four rotation functions, incl. calls made by the library itself; dictionary eigen-equation and physical-state monitors",
        "Record-and-check postconditions sit on rotate_psi / rotate_rho / rotate_psi_inner_prod / rotate_rho_probs of the "
        "imported module and compare every call (model path, explicit psi=/rho= path, include_extras, unitaries=) with "
        "numpy kron; the workload enumerates all 3^n strings for n<=4, samples n=5..12, adds Haar-random and structured user unitaries (given as tensors / arrays / lists), "
        "Hermitian PSD/indefinite/real-symmetric rho, and a library-driven stage (gradient, KL, NLL). Exhaustive over the "
        "strings for n<=4, sampling elsewhere; not a proof.",
        "Trusted: numpy kron/matmul complex128. Non-Hermitian explicit rho is outside the verdict-bearing class.",
        "DESIGN.md 3 C04",
    ),
    "C15": (
        "icontract postconditions (recording) on every public function of utils/cplx.py vs numpy complex128, synthetic generator + library-driven scenarios; error-path monitors",
        "Every public cplx function carries an icontract.ensure postcondition comparing its result with numpy complex128 on "
        "the decoded operands (tolerance 50 eps sum|terms| per real / imaginary component, dtype-aware); evaluated on shapes x value classes "
        "(zero, +-1, tiny, huge, real, imaginary, mixed and split scale, float32 cplx.I), contiguous and strided operands and on the shapes the library produces in "
        "rotations, gradients, observables and a short fit; unsupported shapes / aliasing out= must raise.",
        "Trusted: numpy complex arithmetic as the definition. out= buffers overlapping an operand (views, partial, gapped) must be refused or give the right product (F12); disjoint buffers of one allocation may be used.",
        "DESIGN.md 3 C15",
    ),
    "C03": (
        "runtime value monitor vs torch-autograd oracle of the reference NLL (named parameters, library's own parameter order) + metamorphic batch monitors",
        "Calls gradient / positive_phase_gradients / compute_exact_gradients / compute_exact_grads of the real classes (batched and 1-D "
        "forms) on generated models, datasets and basis assignments - all 3^n strings for n<=4 enumerated as single-basis batches for "
        "complex and mixed states - and compares every component with autograd through an independent Born-rule objective, plus "
        "permutation / split / entry-point-agreement monitors. Ill-conditioned cases (kappa > 1e5) are logged, not verdict-bearing.",
        "Trusted: torch autograd complex128. Mixed states: gradient of -log(p+1e-8) or -log p accepted. Softplus budget 3e-9/unit.",
        "DESIGN.md 3 C03",
    ),
    "C05": (
        "exact-kernel monitor from the public conditionals + ATen Bernoulli tap with chain automaton + protected-storage write sanitizer + Hoeffding-bounded empirical law test",
        "Three monitors on the real sampler: (1) every public conditional vs the conditional obtained from the enumerated joint, kernel "
        "assembly, invariance and detailed balance w.r.t. the reported distribution; (2) every aten::bernoulli call made by "
        "sample()/gibbs_steps is tapped and a chain automaton demands that its probabilities are the reference conditionals of the "
        "current chain state, exactly k steps, overwrite semantics by storage identity; (3) empirical k-step law vs T_ref^k.",
        "Trusted: aten::bernoulli draws independent Bernoulli(p) from the seeded generator; statistical monitor false-alarm <= 1e-9/run.",
        "DESIGN.md 3 C05",
    ),
    "C06": (
        "boundary recorders (recording optimizer/scheduler via public arguments, instance wrappers on compute_batch_gradients / gibbs_steps) + autograd oracle per optimizer step",
        "Every optimizer step of generated fit() runs is recorded (per named parameter: .grad, value before/after, lr) together with the "
        "batch arguments and the Gibbs chain end state; the handed gradient is compared with autograd of the contrastive-divergence "
        "objective at the parameters of THAT step, the SGD update to 4 ulp, one step per batch, scheduler once per epoch.",
        "Trusted: torch autograd, torch.optim.SGD arithmetic.",
        "DESIGN.md 3 C06",
    ),
    "C07": (
        "boundary recorder on per-batch arguments + exactly-once / multiset conservation checker over unambiguous histories + write sanitizer on caller data",
        "The (positive batch, negative batch, bases batch) triple of every batch of generated fit() runs is recorded and checked for "
        "exactly-once coverage of (row, own basis) pairs per epoch with pairwise-distinct rows, batch counts/sizes, negative batches "
        "drawn from (reference-basis) data rows; caller's data/bases protected by the ATen write sanitizer and content digests.",
        "Trusted: a row identifies its input row when rows are pairwise distinct.",
        "DESIGN.md 3 C07",
    ),
    "C08": (
        "runtime value monitor: exact basis-weighted average of Observable.apply vs Tr(rho_ref O) with dense operators; write sanitizer on samples",
        "All built-in observables (SigmaX/Y/Z, absolute variants, NeighbourInteraction for every c and both boundary conditions) are "
        "applied to the full basis of generated positive / complex / mixed states (n<=5) and the exactly weighted average is compared "
        "with the trace formula on the independent reference state; samples and parameters are storage-protected during apply.",
        "Trusted: operator conventions fixed by the documentation (Z=diag(-1,+1), per-site averages).",
        "DESIGN.md 3 C08",
    ),
    "C09": (
        "runtime value monitor: SWAP.apply on every ordered pair x every region vs Tr(rho_A^2) by partial trace of the reference state; pairing-rule monitor; write sanitizer",
        "For generated states (n<=4) and every region A (all formats) the swap estimator is evaluated on every ordered pair of basis states "
        "and its exactly weighted average compared with the purity of the reduced reference state; larger batches must equal the "
        "two-row values of cyclic neighbours; the batch is storage-protected.",
        "Trusted: reference partial trace.",
        "DESIGN.md 3 C09",
    ),
    "C10": (
        "runtime value-and-type monitor on every code path of fidelity / KL / NLL vs dense reference (overlap, Uhlmann via eigh, Born KL, mean log-probability)",
        "fidelity, KL and NLL of the real module are called on every path (pure/mixed, bases None/list/dict, sample_bases, space given or "
        "not, deprecated kwargs) for generated models and targets (generic, real, sparse, full-rank, rank-1, rank-deficient); value, "
        "range, self-consistency (1 / 0 against own state in every basis incl. Y), global-phase invariance and plain-number type are checked.",
        "Trusted: numpy eigh. Mixed fidelity tolerance 1e-6 absolute.",
        "DESIGN.md 3 C10",
    ),
    "C11": (
        "history monitor vs executable file->snapshot model; torch.load of every written file; metadata identity/digest; write sanitizer during save",
        "Random histories of randomise/train/save/save-again(same metadata object)/load(into fresh compatible models)/autoload/"
        "reserved-key/ModelSaver operations over several models and files; after each the live models, files and metadata object are "
        "compared bitwise with the snapshot taken at save time.",
        "Trusted: torch.load of the installed torch (weights-only unpickler).",
        "DESIGN.md 3 C11",
    ),
    "C12": (
        "event-trace recorder (user callbacks) + acceptor of the documented protocol; stop injected at every event position",
        "For generated configurations (epoch ranges incl. empty, 1-3 batches, 1-3 callbacks + LambdaCallback, Timer on/off, three state "
        "types) a stop is injected at EVERY event position by first/middle/last callback; the recorded trace must be one of the traces "
        "the protocol admits, parameters may change only inside a batch window, the flag persists, a stopped state's fit is inert.",
        "Assumes a stop raised at train/epoch/batch start admits zero or one further batch.",
        "DESIGN.md 3 C12",
    ),
    "C13": (
        "boundary recorder on state.sample + one-pass numpy oracle over the recorded chain states; merge routine driven on every split of small datasets",
        "Observable.statistics / System.statistics are run with generated (num_samples, num_chains, burn_in, steps, observables, user "
        "chains, overwrite); every sample() call is recorded (k, start identity, returned chains) and the returned dictionaries are "
        "compared with one-pass statistics of all drawn samples; _update_statistics is driven on every prefix/suffix split.",
        "Trusted: numpy mean/var(ddof=1).",
        "DESIGN.md 3 C13",
    ),
    "C14": (
        "digest comparison of identical histories across fresh processes with perturbed foreign RNG/hash state + RNG-source audit + protected-storage write sanitizer around read-only operations",
        "Generated histories over the public API are executed in three fresh child processes (same seed twice with different "
        "PYTHONHASHSEED/numpy/random state and interleaved foreign draws; a different seed once) and in-process under an audit that "
        "attributes numpy/random draws to library frames and a write sanitizer protecting every parameter during read-only operations.",
        "Bit-reproducibility established for this machine's torch build, one intra-op thread.",
        "DESIGN.md 3 C14",
    ),
    "C16": (
        "runtime value monitor: composite apply / statistics_from_samples vs an interpreter of the same random expression tree over leaf values; rejection monitors",
        "Random expression trees (depth <= 6, all operator forms, scalar classes incl. numpy.float64 and bool) are built with the real "
        "operator overloads and evaluated on random batches; an independent interpreter over the leaves' values is the oracle; "
        "non-linear / non-numeric combinations must raise when built.",
        "Mathematical equality within 1e-12 sum|terms|.",
        "DESIGN.md 3 C16",
    ),
    "C17": (
        "independent recorder callback + wrappers on metric functions / system.statistics / logger function vs evaluator accessors, CSV logs and saved files",
        "A fit with two MetricEvaluators, an ObservableEvaluator, a ModelSaver and a Logger of random periods (plus stop injection, second "
        "run, clear_history, four metadata modes) is recorded independently; schedule, len/epochs/names/arrays/get_value/last, "
        "ObservableStatistics, CSV rows and every saved file are compared with the record.",
        "The recorder is first in the list so the epoch of later calls is known.",
        "DESIGN.md 3 C17",
    ),
    "C18": (
        "scripted-sequence driver through real evaluators inside a real fit + reference decision procedure in extended reals",
        "Scripted value (and variance) sequences are delivered through a real MetricEvaluator / ObservableEvaluator inside a real fit; "
        "the epoch at which training stops, last_epoch and the stop flag are compared with a reference decision procedure over all "
        "criteria, patience 1..5, period combinations and tolerances (thorough: all sequences over a 4-value alphabet, length <= 6).",
        "x/0 = inf (no stop); 0/0 unspecified (either outcome accepted). Known finding F9 (ZeroDivisionError on zero reference).",
        "DESIGN.md 3 C18",
    ),
    "C19": (
        "runtime value monitor vs itertools.product / big-endian expansion / independent file parse",
        "generate_hilbert_space for sizes 1..20 (all rows for n<=12/16, sampled beyond), subspace_vector, index conversion, positions of "
        "arrays produced and accepted (psi, rho, fidelity targets, explicit-psi rotations), the size guard, and both loaders plus "
        "reference-basis extraction on generated files are compared with independent constructions.",
        "Files parsed with str.split; float32 round trip for targets.",
        "DESIGN.md 3 C19",
    ),
    "C20": (
        "object-identity / storage-pointer / value monitor after each step of construct-train-reinitialise sequences; aux-bias recorder callback; mutation probes",
        "Sequences of construct (sizes | module=), train (four optimizers), reinitialise and fit-without-bases are executed; identity and "
        "storage disjointness of the networks, shapes, zero biases, independent weights, mutation probes both ways, refusal before any "
        "effect, and the phase auxiliary bias at every batch end are checked.",
        "Two fresh random weight tensors are never bit-identical.",
        "DESIGN.md 3 C20",
    ),
}

NOT_YET = "check not built yet in this round (work in progress); will be claimed once its monitor exists"


def main():
    checks = []
    na = []
    for p in PROPS:
        pid = p["id"]
        if pid in CHECKS:
            tech, text, note, ref = CHECKS[pid]
            checks.append({
                "property_id": pid,
                "quick_cmd": f"./check {pid} --tier quick",
                "thorough_cmd": f"./check {pid} --tier thorough",
                "evidence_file": f"evidence/{pid}.json",
                "replay_cmd_template": f"./check {pid} --replay {{path}}",
                "engine": "qucumber-runtime-monitor",
                "level_claimed": {"category": "exploration", "text": text, "design_ref": ref},
                "level_note": note,
                "technique": tech,
            })
        else:
            na.append({"property_id": pid, "reason": NA.get(pid, NOT_YET)})
    man = {
        "version": 1,
        "setup_cmd": "/venv/bin/python -c \"import sys; sys.path.insert(0,'.'); from vlib import bootstrap; bootstrap.ensure_deps()\"",
        "hooks": {
            "guard": "QUCUMBER_VERIF",
            "enable": "no source hook exists in /repo: all instrumentation (boundary recorders, contracts, "
                      "TorchDispatchMode monitors, sys.monitoring reach recorder) is installed by the harness at run "
                      "time on the code imported from /repo's working tree; QUCUMBER_VERIF=1 is exported by ./check "
                      "for the harness-side layer only",
            "baseline_off_cmd": "cd /repo && /venv/bin/python -m pytest -ra -q -p no:cacheprovider --timeout=900 "
                                "--continue-on-collection-errors",
            "source_commits": [],
            "add_only": True,
        },
        "engines": [{
            "name": "qucumber-runtime-monitor",
            "path": "vlib/",
            "serves_properties": sorted(CHECKS),
            "kind_free_text": "runtime monitoring: real library code from /repo's working tree is run under generated "
                              "hostile workloads in forked workers; boundary recorders, ATen dispatch monitors "
                              "(write sanitizer, RNG audit, Bernoulli tap, float sanitizer), runtime contracts and a "
                              "sys.monitoring reach recorder observe it; an independent numpy/autograd reference "
                              "model and small executable specifications are the oracles",
        }],
        "checks": checks,
        "notes": "Exit codes of ./check: 0 held on everything explored (KNOWN-FINDING lines possible), 1 violation "
                 "(VIOLATION lines with replay file), 2 inconclusive (monitor saw nothing / branch not reached / worker "
                 "died). Known findings are in known_findings.json.",
        "not_applicable": na,
    }
    out = os.path.join(VERIF, "MANIFEST.json")
    with open(out, "w") as f:
        json.dump(man, f, indent=1)
        f.write("\n")
    try:
        sys.path.append("/opt/veriftools/pyvenv/lib/python3.11/site-packages")
        import jsonschema

        jsonschema.validate(man, json.load(open("/root/.vp/MANIFEST.schema.json")))
        print("MANIFEST.json valid;", len(checks), "checks,", len(na), "not_applicable")
    except ImportError:
        print("MANIFEST.json written (jsonschema not importable here)")


NA = {}

if __name__ == "__main__":
    main()
