#!/venv/bin/python
"""Regenerates /verif/MANIFEST.json from the table below and validates it
against /root/.vp/MANIFEST.schema.json (when jsonschema is importable)."""
import json
import os
import sys

VERIF = os.path.dirname(os.path.dirname(os.path.abspath(__file__)))
PROPS = [json.loads(l) for l in open(os.path.join(VERIF, "properties.jsonl"))]

# id -> (technique, level text, level note, design ref)
CHECKS = {
    "C01": (
        "runtime value monitor vs enumerated-marginal reference model + metamorphic monitors + ATen float sanitizer",
        "Runs psi/amplitude/phase/probability/normalization of the real classes on generated models over every "
        "architecture of the quantifier (1..5 x 1..6), parameter scales up to 30, every basis state, batched and "
        "1-D call forms, and compares each returned value with a hidden-state enumeration that shares no code with "
        "the library. Held = held on the executions produced (hundreds quick / tens of thousands thorough), not a proof.",
        "Trusted: CPython, numpy/torch float64 kernels. Softplus threshold approximation budgeted (3e-9 per hidden unit).",
        "DESIGN.md 3 C01",
    ),
}

NOT_YET = "check not built yet in this round (work in progress); will be claimed once its monitor exists"


def main():
    checks = []
    na = []
    for p in PROPS:
        pid = p["id"]
        if pid in CHECKS:
            tech, text, note, ref = CHECKS[pid]
            checks.append({
                "property_id": pid,
                "quick_cmd": f"./check {pid} --tier quick",
                "thorough_cmd": f"./check {pid} --tier thorough",
                "evidence_file": f"evidence/{pid}.json",
                "replay_cmd_template": f"./check {pid} --replay {{path}}",
                "engine": "qucumber-runtime-monitor",
                "level_claimed": {"category": "exploration", "text": text, "design_ref": ref},
                "level_note": note,
                "technique": tech,
            })
        else:
            na.append({"property_id": pid, "reason": NA.get(pid, NOT_YET)})
    man = {
        "version": 1,
        "setup_cmd": "/venv/bin/python -c \"import sys; sys.path.insert(0,'.'); from vlib import bootstrap; bootstrap.ensure_deps()\"",
        "hooks": {
            "guard": "QUCUMBER_VERIF",
            "enable": "no source hook exists in /repo: all instrumentation (boundary recorders, contracts, "
                      "TorchDispatchMode monitors, sys.monitoring reach recorder) is installed by the harness at run "
                      "time on the code imported from /repo's working tree; QUCUMBER_VERIF=1 is exported by ./check "
                      "for the harness-side layer only",
            "baseline_off_cmd": "cd /repo && /venv/bin/python -m pytest -ra -q -p no:cacheprovider --timeout=900 "
                                "--continue-on-collection-errors",
            "source_commits": [],
            "add_only": True,
        },
        "engines": [{
            "name": "qucumber-runtime-monitor",
            "path": "vlib/",
            "serves_properties": sorted(CHECKS),
            "kind_free_text": "runtime monitoring: real library code from /repo's working tree is run under generated "
                              "hostile workloads in forked workers; boundary recorders, ATen dispatch monitors "
                              "(write sanitizer, RNG audit, Bernoulli tap, float sanitizer), runtime contracts and a "
                              "sys.monitoring reach recorder observe it; an independent numpy/autograd reference "
                              "model and small executable specifications are the oracles",
        }],
        "checks": checks,
        "notes": "Exit codes of ./check: 0 held on everything explored (KNOWN-FINDING lines possible), 1 violation "
                 "(VIOLATION lines with replay file), 2 inconclusive (monitor saw nothing / branch not reached / worker "
                 "died). Known findings are in known_findings.json.",
        "not_applicable": na,
    }
    out = os.path.join(VERIF, "MANIFEST.json")
    with open(out, "w") as f:
        json.dump(man, f, indent=1)
        f.write("\n")
    try:
        sys.path.append("/opt/veriftools/pyvenv/lib/python3.11/site-packages")
        import jsonschema

        jsonschema.validate(man, json.load(open("/root/.vp/MANIFEST.schema.json")))
        print("MANIFEST.json valid;", len(checks), "checks,", len(na), "not_applicable")
    except ImportError:
        print("MANIFEST.json written (jsonschema not importable here)")


NA = {}

if __name__ == "__main__":
    main()
