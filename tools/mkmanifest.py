#!/venv/bin/python
"""Regenerates /verif/MANIFEST.json from the table below and validates it
against /root/.vp/MANIFEST.schema.json (when jsonschema is importable)."""
import json
import os
import sys

VERIF = os.path.dirname(os.path.dirname(os.path.abspath(__file__)))
PROPS = [json.loads(l) for l in open(os.path.join(VERIF, "properties.jsonl"))]

# id -> (technique, level text, level note, design ref)
CHECKS = {
    "C01": (
        "runtime value monitor vs enumerated-marginal reference model + metamorphic monitors + ATen float sanitizer",
        "Runs psi/amplitude/phase/probability/normalization of the real classes on generated models over every "
        "architecture of the quantifier (1..5 x 1..6), parameter scales up to 30, every basis state, batched and "
        "1-D call forms, and compares each returned value with a hidden-state enumeration that shares no code with "
        "the library. Held = held on the executions produced (hundreds quick / tens of thousands thorough), not a proof.",
        "Trusted: CPython, numpy/torch float64 kernels. Softplus threshold approximation budgeted (3e-9 per hidden unit).",
        "DESIGN.md 3 C01",
    ),
    "C02": (
        "runtime value monitor vs purification-by-enumeration reference + Hermitian/PSD/diag/trace/call-form monitors + ATen float sanitizer",
        "Runs rho (matrix, paired-vector and scalar call forms), probability and normalization of the real DensityMatrix on "
        "generated models over all 64 architectures (1..4)^3 with parameter scales up to 30 and compares every entry with "
        "sum_a psi(.,a)psi(.,a)^dagger obtained by enumerating hidden and auxiliary units, plus direct Hermitian / PSD / "
        "diagonal / trace monitors. Held on the executions produced, not a proof.",
        "Trusted: numpy complex128 arithmetic, eigvalsh. Softplus threshold approximation budgeted (3e-9 per unit).",
        "DESIGN.md 3 C02",
    ),
    "C04": (
        "runtime contracts (postconditions vs dense Kronecker product) on the four rotation functions, incl. calls made by the library itself; dictionary eigen-equation and physical-state monitors",
        "Record-and-check postconditions sit on rotate_psi / rotate_rho / rotate_psi_inner_prod / rotate_rho_probs of the "
        "imported module and compare every call (model path, explicit psi=/rho= path, include_extras, unitaries=) with "
        "numpy kron; the workload enumerates all 3^n strings for n<=4, samples n=5..7, adds Haar-random user unitaries, "
        "Hermitian PSD/indefinite/real-symmetric rho, and a library-driven stage (gradient, KL, NLL). Exhaustive over the "
        "strings for n<=4, sampling elsewhere; not a proof.",
        "Trusted: numpy kron/matmul complex128. Non-Hermitian explicit rho is outside the verdict-bearing class.",
        "DESIGN.md 3 C04",
    ),
    "C15": (
        "icontract postconditions (recording) on every public function of utils/cplx.py vs numpy complex128, synthetic generator + library-driven scenarios; error-path monitors",
        "Every public cplx function carries an icontract.ensure postcondition comparing its result with numpy complex128 on "
        "the decoded operands (tolerance 50 eps sum|terms|, dtype-aware); evaluated on shapes x value classes "
        "(zero, +-1, tiny, huge, real, imaginary, mixed scale, float32 cplx.I) and on the shapes the library produces in "
        "rotations, gradients, observables and a short fit; unsupported shapes / aliasing out= must raise.",
        "Trusted: numpy complex arithmetic as the definition. Overlapping-view out= buffers are not demanded to be rejected.",
        "DESIGN.md 3 C15",
    ),
}

NOT_YET = "check not built yet in this round (work in progress); will be claimed once its monitor exists"


def main():
    checks = []
    na = []
    for p in PROPS:
        pid = p["id"]
        if pid in CHECKS:
            tech, text, note, ref = CHECKS[pid]
            checks.append({
                "property_id": pid,
                "quick_cmd": f"./check {pid} --tier quick",
                "thorough_cmd": f"./check {pid} --tier thorough",
                "evidence_file": f"evidence/{pid}.json",
                "replay_cmd_template": f"./check {pid} --replay {{path}}",
                "engine": "qucumber-runtime-monitor",
                "level_claimed": {"category": "exploration", "text": text, "design_ref": ref},
                "level_note": note,
                "technique": tech,
            })
        else:
            na.append({"property_id": pid, "reason": NA.get(pid, NOT_YET)})
    man = {
        "version": 1,
        "setup_cmd": "/venv/bin/python -c \"import sys; sys.path.insert(0,'.'); from vlib import bootstrap; bootstrap.ensure_deps()\"",
        "hooks": {
            "guard": "QUCUMBER_VERIF",
            "enable": "no source hook exists in /repo: all instrumentation (boundary recorders, contracts, "
                      "TorchDispatchMode monitors, sys.monitoring reach recorder) is installed by the harness at run "
                      "time on the code imported from /repo's working tree; QUCUMBER_VERIF=1 is exported by ./check "
                      "for the harness-side layer only",
            "baseline_off_cmd": "cd /repo && /venv/bin/python -m pytest -ra -q -p no:cacheprovider --timeout=900 "
                                "--continue-on-collection-errors",
            "source_commits": [],
            "add_only": True,
        },
        "engines": [{
            "name": "qucumber-runtime-monitor",
            "path": "vlib/",
            "serves_properties": sorted(CHECKS),
            "kind_free_text": "runtime monitoring: real library code from /repo's working tree is run under generated "
                              "hostile workloads in forked workers; boundary recorders, ATen dispatch monitors "
                              "(write sanitizer, RNG audit, Bernoulli tap, float sanitizer), runtime contracts and a "
                              "sys.monitoring reach recorder observe it; an independent numpy/autograd reference "
                              "model and small executable specifications are the oracles",
        }],
        "checks": checks,
        "notes": "Exit codes of ./check: 0 held on everything explored (KNOWN-FINDING lines possible), 1 violation "
                 "(VIOLATION lines with replay file), 2 inconclusive (monitor saw nothing / branch not reached / worker "
                 "died). Known findings are in known_findings.json.",
        "not_applicable": na,
    }
    out = os.path.join(VERIF, "MANIFEST.json")
    with open(out, "w") as f:
        json.dump(man, f, indent=1)
        f.write("\n")
    try:
        sys.path.append("/opt/veriftools/pyvenv/lib/python3.11/site-packages")
        import jsonschema

        jsonschema.validate(man, json.load(open("/root/.vp/MANIFEST.schema.json")))
        print("MANIFEST.json valid;", len(checks), "checks,", len(na), "not_applicable")
    except ImportError:
        print("MANIFEST.json written (jsonschema not importable here)")


NA = {}

if __name__ == "__main__":
    main()
