#!/venv/bin/python
"""False-alarm calibration with an independently produced behaviour-preserving refactoring.

usage: check_benign.py <src_dir with patch.diff meta.json> <name> [--all] [--no-scipy]
  --no-scipy  do not re-run the two scipy-dependent test files here (20 min and more on a loaded machine); the author's
              reported result for them is recorded instead, marked as such

Applies the patch to a scratch copy of /repo (outside /repo and /verif, removed afterwards), confirms that the baseline
tests (and the two scipy-dependent test files) still pass, runs every quick check whose property can be touched by the
files the patch changes (all 20 with --all) and files the result under /verif/benign/<name>/.  Every check must exit 0.
"""
import json
import os
import re
import shutil
import subprocess
import sys
import tempfile

VERIF = os.path.dirname(os.path.dirname(os.path.abspath(__file__)))
REPO = "/repo"
ALL = [f"C{i:02d}" for i in range(1, 21)]
MAP = [
    (r"rbm/", "C01 C02 C03 C05 C06 C08 C09 C10 C13 C14 C20 C11"),
    (r"nn_states/neural_state", "C01 C03 C05 C06 C07 C11 C12 C13 C14 C17 C18 C19 C20 C08 C09 C10"),
    (r"nn_states/(wavefunction|positive|complex)", "C01 C03 C04 C06 C08 C09 C10 C11 C14 C19 C20"),
    (r"nn_states/density", "C02 C03 C04 C06 C08 C09 C10 C11 C14 C19 C20"),
    (r"utils/unitaries", "C03 C04 C06 C10 C19 C14"),
    (r"utils/cplx", "C02 C03 C04 C08 C09 C10 C15 C19"),
    (r"utils/training_statistics", "C10 C19 C14"),
    (r"utils/data", "C07 C19 C06"),
    (r"utils/gradients_utils", "C06 C12 C20"),
    (r"utils/__init__", "C01 C02 C05 C10 C19"),
    (r"observables/", "C08 C09 C13 C14 C16 C17"),
    (r"callbacks/", "C11 C12 C14 C17 C18"),
    (r"qucumber/__init__", "C14"),
]


def sh(cmd, **kw):
    return subprocess.run(cmd, capture_output=True, text=True, **kw)


def main():
    src, name = sys.argv[1], sys.argv[2]
    run_all = "--all" in sys.argv
    patch = open(os.path.join(src, "patch.diff")).read()
    files = re.findall(r"^\+\+\+ b/(\S+)", patch, flags=re.M)
    props = set()
    for f in files:
        for pat, ps in MAP:
            if re.search(pat, f):
                props.update(ps.split())
    props = ALL if run_all or not props else sorted(props)
    wt = tempfile.mkdtemp(prefix="bn-", dir="/tmp")
    os.rmdir(wt)
    r = sh(["git", "-C", REPO, "worktree", "add", "--detach", wt, "HEAD"])
    assert r.returncode == 0, r.stderr
    out = {"name": name, "files": files, "props_run": props}
    try:
        r = sh(["git", "-C", wt, "apply", os.path.join(os.path.abspath(src), "patch.diff")])
        out["patch_applies"] = r.returncode == 0
        if r.returncode:
            out["error"] = r.stderr[-400:]
            print(json.dumps(out))
            return 2
        for attempt in (8, 4):
            t = sh(["/venv/bin/python", "-m", "pytest", "-q", "-p", "no:cacheprovider", "--timeout=900",
                    "--continue-on-collection-errors", "-n", str(attempt)], cwd=wt, env=dict(os.environ, MPLBACKEND="Agg"))
            line = [l for l in t.stdout.splitlines() if " passed" in l or " failed" in l]
            out["tests"] = line[-1].strip("= ") if line else t.stdout[-200:]
            out["tests_ok"] = bool(line) and "245 passed" in line[-1] and "failed" not in line[-1]
            if out["tests_ok"]:
                break
        if "--no-scipy" in sys.argv:
            try:
                rep = str(json.load(open(os.path.join(src, "meta.json"))).get("scipy_tests"))
            except Exception:  # noqa: BLE001
                rep = "None"
            out["scipy_tests"] = "reported by the author, not re-run here: " + rep[:160]
            out["scipy_tests_ok"] = " passed" in rep and "failed" not in rep
        else:
            t = sh(["/venv/bin/python", "-m", "pytest", "-q", "-p", "no:cacheprovider", "--timeout=1800", "-n", "8",
                    "tests/test_grads.py", "tests/test_training.py"], cwd=wt,
                   env=dict(os.environ, MPLBACKEND="Agg", PYTHONPATH=f"{wt}:/tmp/extra-deps"))
            line = [l for l in t.stdout.splitlines() if " passed" in l or " failed" in l]
            out["scipy_tests"] = line[-1].strip("= ") if line else t.stdout[-200:]
            out["scipy_tests_ok"] = bool(line) and "failed" not in line[-1] and "error" not in line[-1]
        checks = {}
        for p in props:
            env = dict(os.environ, QUCUMBER_REPO=wt, VERIF_EVIDENCE_DIR=os.path.join(wt, "_ev"), VERIF_REPLAY_DIR=os.path.join(wt, "_rp"))
            c = sh([os.path.join(VERIF, "check"), p, "--tier", "quick"], env=env)
            first = [l.strip()[:300] for l in c.stdout.splitlines() if l.startswith("  ") or "INCONCLUSIVE" in l or "HARNESS" in l][:3]
            checks[p] = {"rc": c.returncode, "first": first if c.returncode else []}
        out["checks"] = checks
        out["silent"] = all(v["rc"] == 0 for v in checks.values())
        dst = os.path.join(VERIF, "benign", name)
        os.makedirs(dst, exist_ok=True)
        shutil.copy(os.path.join(src, "patch.diff"), dst)
        try:
            meta = json.load(open(os.path.join(src, "meta.json")))
        except Exception:  # noqa: BLE001
            meta = {}
        json.dump({"origin": "independent sub-agent asked for a behaviour-preserving refactoring (given only the property text)",
                   "summary": meta.get("summary"), "why_equivalent": meta.get("why_equivalent"), "files": files,
                   "tests": out.get("tests"), "scipy_tests": out.get("scipy_tests"), "tests_ok": out.get("tests_ok"),
                   "scipy_tests_ok": out.get("scipy_tests_ok"), "checks_run": checks, "all_silent": out["silent"]},
                  open(os.path.join(dst, "meta.json"), "w"), indent=1)
        print(json.dumps(out))
        return 0 if out["silent"] else 1
    finally:
        sh(["git", "-C", REPO, "worktree", "remove", "--force", wt])
        shutil.rmtree(wt, ignore_errors=True)


if __name__ == "__main__":
    sys.exit(main())
