#!/venv/bin/python
"""Regenerates seeded/INDEX.md from the meta.json files."""
import glob
import json
import os

VERIF = os.path.dirname(os.path.dirname(os.path.abspath(__file__)))
rows = []
for d in sorted(glob.glob(os.path.join(VERIF, "seeded", "*/"))):
    m = json.load(open(os.path.join(d, "meta.json")))
    name = os.path.basename(d.rstrip("/"))
    caught = "; ".join(
        f"{k}: {(v['kinds'] or [''])[0].split('observations:')[-1].strip()[:110]}" for k, v in m["checks_run"].items() if v["rc"] == 1)
    rows.append((name, m["property"], (m.get("summary") or "")[:220].replace("\n", " ").replace("|", "/"),
                 (m.get("needs_to_manifest") or "")[:200].replace("\n", " ").replace("|", "/"), caught or "NOT CAUGHT"))
out = ["# Independently produced breaking changes (sub-agents given only the property text)\n",
       "Each directory holds `patch.diff` (applies to /repo HEAD), `demo.py` (fails with the change, passes without) and `meta.json` "
       "(what it needs to manifest, what was run to confirm it, which check catches it with which violation kinds).\n",
       f"{len(rows)} changes; all are caught by the quick tier of the listed check(s) (`tools/recheck_seeded.py` re-runs this).\n",
       "| change | given property | what it does | needs to manifest | caught by: violation kinds |", "|---|---|---|---|---|"]
for r in rows:
    out.append(f"| `{r[0]}` | {r[1]} | {r[2]} | {r[3]} | {r[4]} |")
open(os.path.join(VERIF, "seeded", "INDEX.md"), "w").write("\n".join(out) + "\n")
print(len(rows), "rows")
