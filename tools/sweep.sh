#!/bin/bash
# quick tier over several seeds (fresh processes, PYTHONHASHSEED 0 and random), then one thorough pass
cd "$(dirname "$(readlink -f "$0")")/.."
for s in 1 2 3 4 5; do echo "== quick seed $s PYTHONHASHSEED=0"; PYTHONHASHSEED=0 tools/run_all.sh quick $s | grep -v "rc=0" ; echo "done quick $s"; done
for s in 11 12; do echo "== quick seed $s PYTHONHASHSEED=random"; PYTHONHASHSEED=random tools/run_all.sh quick $s | grep -v "rc=0"; echo "done quick $s"; done
echo "== thorough seed ${1:-7}"; tools/run_all.sh thorough ${1:-7}
