#!/venv/bin/python
"""Re-run the quick checks against every kept behaviour-preserving refactoring (scratch copies, removed afterwards): every
check that was run when the refactoring was filed must still exit 0.  Prints one line per refactoring; exit 1 if any check
alarms (1) or is inconclusive (2).

usage: recheck_benign.py [jobs] [--only=name1,name2] [--update]   (--update rewrites checks_run / all_silent in meta.json)"""
import concurrent.futures as cf
import glob
import json
import os
import shutil
import subprocess
import sys
import tempfile

VERIF = os.path.dirname(os.path.dirname(os.path.abspath(__file__)))
REPO = "/repo"
UPDATE = "--update" in sys.argv


def one(d):
    name = os.path.basename(d.rstrip("/"))
    meta = json.load(open(os.path.join(d, "meta.json")))
    props = sorted(meta.get("checks_run", {}))
    wt = tempfile.mkdtemp(prefix="rb-", dir="/var/tmp")
    try:
        shutil.copytree(os.path.join(REPO, "qucumber"), os.path.join(wt, "qucumber"), ignore=shutil.ignore_patterns("__pycache__"))
        r = subprocess.run(["git", "apply", "--unsafe-paths", "--directory=" + wt, os.path.join(d, "patch.diff")], cwd="/", capture_output=True, text=True)
        if r.returncode != 0:
            r = subprocess.run(["patch", "-p1", "-d", wt, "-i", os.path.join(d, "patch.diff")], capture_output=True, text=True)
            if r.returncode != 0:
                return name, "PATCH-FAILED", {}
        res = {}
        for p in props:
            env = dict(os.environ, QUCUMBER_REPO=wt, VERIF_EVIDENCE_DIR=os.path.join(wt, "_ev"), VERIF_REPLAY_DIR=os.path.join(wt, "_rp"))
            c = subprocess.run([os.path.join(VERIF, "check"), p, "--tier", "quick"], env=env, capture_output=True, text=True)
            res[p] = c.returncode
            if UPDATE:
                first = [l.strip()[:300] for l in c.stdout.splitlines() if l.startswith("  ") or "INCONCLUSIVE" in l or "HARNESS" in l][:3]
                meta["checks_run"][p] = {"rc": c.returncode, "first": first if c.returncode else []}
        if UPDATE:
            meta["all_silent"] = all(v == 0 for v in res.values())
            json.dump(meta, open(os.path.join(d, "meta.json"), "w"), indent=1)
        return name, ("SILENT" if all(v == 0 for v in res.values()) else "ALARM"), {k: v for k, v in res.items() if v}
    finally:
        shutil.rmtree(wt, ignore_errors=True)


def main():
    dirs = sorted(glob.glob(os.path.join(VERIF, "benign", "*/")))
    only = [a.split("=", 1)[1].split(",") for a in sys.argv[1:] if a.startswith("--only=")]
    if only:
        dirs = [d for d in dirs if os.path.basename(d.rstrip("/")) in only[0]]
    jobs = [a for a in sys.argv[1:] if a.isdigit()]
    bad = []
    with cf.ThreadPoolExecutor(int(jobs[0]) if jobs else 3) as ex:
        for name, verdict, res in ex.map(one, dirs):
            print(name, verdict, res, flush=True)
            if verdict != "SILENT":
                bad.append(name)
    print(f"== {len(dirs) - len(bad)}/{len(dirs)} refactorings leave every check silent; not silent: {bad}")
    return 1 if bad else 0


if __name__ == "__main__":
    sys.exit(main())
