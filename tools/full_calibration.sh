#!/bin/bash
# everything that has to stay true after a change to the machinery
cd "$(dirname "$(readlink -f "$0")")/.."
echo "### quick, seeds 0 1 2"; for s in 0 1 2; do tools/run_all.sh quick $s | grep -v "rc=0"; echo "done quick $s"; done
echo "### seeded"; tools/recheck_seeded.py 3 | tail -4
echo "### mutants"; selftest/run_mutants.py --jobs 3 --json selftest/kill_matrix.json | tail -1
echo "### benign"; selftest/run_mutants.py --benign --jobs 3 --json selftest/benign_matrix.json | tail -1
echo "### thorough seed ${1:-21}"; tools/run_all.sh thorough ${1:-21}
