#!/bin/bash
# the three kill / silence matrices only (seed sweeps are run separately with tools/sweep.sh)
cd "$(dirname "$(readlink -f "$0")")/.."
echo "### seeded"; tools/recheck_seeded.py 4 | tail -3
echo "### mutants"; selftest/run_mutants.py --jobs 4 --json selftest/kill_matrix.json | tail -1
echo "### own benign"; selftest/run_mutants.py --benign --jobs 4 --json selftest/benign_matrix.json | tail -1
