#!/bin/bash
# runs every check of the given tier sequentially; prints one line per property
tier=${1:-quick}; seed=${2:-0}
cd "$(dirname "$(readlink -f "$0")")/.."
fail=0
for i in $(seq -w 1 20); do
  id=C$i
  s=$(date +%s)
  out=$(VERIF_SEED=$seed ./check $id --tier $tier 2>&1); rc=$?
  e=$(date +%s)
  echo "$id rc=$rc $((e-s))s $(echo "$out" | grep -E 'HELD|VIOLATION|INCONCLUSIVE|KNOWN-FINDING|HARNESS' | head -3 | cut -c1-160 | tr '\n' '|')"
  [ $rc -ne 0 ] && fail=1
done
exit $fail
