#!/venv/bin/python
"""Confirm an independently produced breaking change and file it under /verif/seeded/.

usage: harvest_seeded.py <src_dir with patch.diff demo.py meta.json> <property id> <name> [--props C03,C06]

Steps (all in a fresh scratch worktree outside /repo and /verif, removed afterwards):
  1. patch applies cleanly to /repo's HEAD;
  2. the 245-test baseline still passes with the change (2 expected collection errors);
  3. demo.py fails with the change and passes without it;
  4. the property's quick check (and any extra listed) is run against the changed tree (QUCUMBER_REPO=<scratch>).
Writes seeded/<name>/{patch.diff, demo.py, meta.json}.
"""
import json
import os
import shutil
import subprocess
import sys
import tempfile

VERIF = os.path.dirname(os.path.dirname(os.path.abspath(__file__)))
REPO = "/repo"


def sh(cmd, **kw):
    return subprocess.run(cmd, capture_output=True, text=True, **kw)


def main():
    src, prop, name = sys.argv[1], sys.argv[2], sys.argv[3]
    props = [prop]
    tier = "quick"
    for a in sys.argv[4:]:
        if a.startswith("--props="):
            props = a.split("=", 1)[1].split(",")
        if a.startswith("--tier="):
            tier = a.split("=", 1)[1]
    wt = tempfile.mkdtemp(prefix="hv-", dir="/tmp")
    os.rmdir(wt)
    r = sh(["git", "-C", REPO, "worktree", "add", "--detach", wt, "HEAD"])
    assert r.returncode == 0, r.stderr
    out = {"property": prop, "name": name}
    try:
        meta = json.load(open(os.path.join(src, "meta.json")))
        env = dict(os.environ, MPLBACKEND="Agg", PYTHONPATH=f"{wt}:/tmp/extra-deps", OMP_NUM_THREADS="1")
        # demo on the unmodified tree
        d0 = sh(["/venv/bin/python", os.path.join(src, "demo.py")], cwd=wt, env=env, timeout=1800)
        out["demo_without_change_rc"] = d0.returncode
        r = sh(["git", "-C", wt, "apply", os.path.join(src, "patch.diff")])
        out["patch_applies"] = r.returncode == 0
        if r.returncode != 0:
            out["error"] = r.stderr[-500:]
            print(json.dumps(out, indent=1))
            return 1
        d1 = sh(["/venv/bin/python", os.path.join(src, "demo.py")], cwd=wt, env=env, timeout=1800)
        out["demo_with_change_rc"] = d1.returncode
        out["demo_with_change_tail"] = (d1.stdout + d1.stderr).strip().splitlines()[-3:]
        t = sh(["/venv/bin/python", "-m", "pytest", "-q", "-p", "no:cacheprovider", "--timeout=900",
                "--continue-on-collection-errors", "-n", "8"], cwd=wt, env=dict(os.environ, MPLBACKEND="Agg"), timeout=3600)
        line = [l for l in t.stdout.splitlines() if " passed" in l or " failed" in l]
        out["tests_with_change"] = line[-1].strip("= ") if line else t.stdout[-200:]
        out["tests_ok"] = bool(line) and "245 passed" in line[-1] and "failed" not in line[-1]
        if not out["tests_ok"]:  # the suite has a load-sensitive test: one retry on a quieter pool
            t = sh(["/venv/bin/python", "-m", "pytest", "-q", "-p", "no:cacheprovider", "--timeout=900",
                    "--continue-on-collection-errors", "-n", "4"], cwd=wt, env=dict(os.environ, MPLBACKEND="Agg"), timeout=3600)
            line = [l for l in t.stdout.splitlines() if " passed" in l or " failed" in l]
            out["tests_with_change"] = (line[-1].strip("= ") if line else t.stdout[-200:]) + " (second run)"
            out["tests_ok"] = bool(line) and "245 passed" in line[-1] and "failed" not in line[-1]
        checks = {}
        for p in props:
            envc = dict(os.environ, QUCUMBER_REPO=wt, VERIF_EVIDENCE_DIR=os.path.join(wt, "_ev"), VERIF_REPLAY_DIR=os.path.join(wt, "_rp"))
            c = sh([os.path.join(VERIF, "check"), p, "--tier", tier], env=envc, timeout=7200)
            kinds = [l.strip() for l in c.stdout.splitlines() if "violation observations" in l]
            first = [l.strip() for l in c.stdout.splitlines() if l.startswith("  ")][:2]
            checks[p] = {"rc": c.returncode, "tier": tier, "kinds": kinds[:1], "first": [f[:300] for f in first]}
        out["checks"] = checks
        out["caught"] = any(v["rc"] == 1 for v in checks.values())
        dst = os.path.join(VERIF, "seeded", name)
        os.makedirs(dst, exist_ok=True)
        shutil.copy(os.path.join(src, "patch.diff"), dst)
        shutil.copy(os.path.join(src, "demo.py"), dst)
        meta_out = {
            "property": prop, "origin": "independent sub-agent given only the property text and a scratch worktree",
            "summary": meta.get("summary"), "needs_to_manifest": meta.get("needs"), "files": meta.get("files"),
            "confirmed": {k: out[k] for k in ("patch_applies", "tests_with_change", "tests_ok", "demo_without_change_rc",
                                              "demo_with_change_rc", "demo_with_change_tail")},
            "checks_run": checks, "caught_by": [p for p, v in checks.items() if v["rc"] == 1],
            "how_run": "patch applied to a fresh scratch worktree of /repo HEAD; baseline pytest; demo.py with/without; "
                       "./check <ID> with QUCUMBER_REPO=<scratch>; worktree removed",
        }
        json.dump(meta_out, open(os.path.join(dst, "meta.json"), "w"), indent=1)
        print(json.dumps(out, indent=1))
        return 0
    finally:
        sh(["git", "-C", REPO, "worktree", "remove", "--force", wt])
        shutil.rmtree(wt, ignore_errors=True)


if __name__ == "__main__":
    sys.exit(main())
