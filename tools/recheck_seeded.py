#!/venv/bin/python
"""Re-run the owning checks against every kept seeded change (scratch copies, removed afterwards).
Prints one line per change; exit 1 if any change is no longer caught.

usage: recheck_seeded.py [jobs] [--only=name1,name2] [--update]
  --update  re-runs the check of the property the change was written against (plus those recorded as catching it) and
            rewrites checks_run / caught_by in the change's meta.json (used after a check was strengthened)."""
import concurrent.futures as cf
import glob
import json
import os
import shutil
import subprocess
import sys
import tempfile

VERIF = os.path.dirname(os.path.dirname(os.path.abspath(__file__)))
REPO = "/repo"


UPDATE = "--update" in sys.argv


def one(d):
    name = os.path.basename(d.rstrip("/"))
    meta = json.load(open(os.path.join(d, "meta.json")))
    props = meta.get("caught_by") or [meta["property"]]
    if UPDATE:
        props = sorted(set(props) | {meta["property"]})
    wt = tempfile.mkdtemp(prefix="rs-", dir="/var/tmp")
    try:
        shutil.copytree(os.path.join(REPO, "qucumber"), os.path.join(wt, "qucumber"), ignore=shutil.ignore_patterns("__pycache__"))
        r = subprocess.run(["git", "apply", "--unsafe-paths", "--directory=" + wt, os.path.join(d, "patch.diff")], cwd="/", capture_output=True, text=True)
        if r.returncode != 0:
            r = subprocess.run(["patch", "-p1", "-d", wt, "-i", os.path.join(d, "patch.diff")], capture_output=True, text=True)
            if r.returncode != 0:
                return name, "PATCH-FAILED", {}
        res = {}
        for p in props:
            env = dict(os.environ, QUCUMBER_REPO=wt, VERIF_EVIDENCE_DIR=os.path.join(wt, "_ev"), VERIF_REPLAY_DIR=os.path.join(wt, "_rp"))
            c = subprocess.run([os.path.join(VERIF, "check"), p, "--tier", "quick"], env=env, capture_output=True, text=True)
            res[p] = c.returncode
            if UPDATE:
                kinds = [l.strip() for l in c.stdout.splitlines() if "violation observations" in l]
                first = [l.strip() for l in c.stdout.splitlines() if l.startswith("  ")][:2]
                meta.setdefault("checks_run", {})[p] = {"rc": c.returncode, "tier": "quick", "kinds": kinds[:1], "first": [f[:300] for f in first]}
        if UPDATE:
            meta["caught_by"] = [p for p, v in meta["checks_run"].items() if v["rc"] == 1]
            json.dump(meta, open(os.path.join(d, "meta.json"), "w"), indent=1)
        return name, ("CAUGHT" if any(v == 1 for v in res.values()) else "MISSED"), res
    finally:
        shutil.rmtree(wt, ignore_errors=True)


def main():
    dirs = sorted(glob.glob(os.path.join(VERIF, "seeded", "*/")))
    only = [a.split("=", 1)[1].split(",") for a in sys.argv[1:] if a.startswith("--only=")]
    if only:
        dirs = [d for d in dirs if os.path.basename(d.rstrip("/")) in only[0]]
    bad = []
    jobs = [a for a in sys.argv[1:] if a.isdigit()]
    with cf.ThreadPoolExecutor(int(jobs[0]) if jobs else 3) as ex:
        for name, verdict, res in ex.map(one, dirs):
            print(name, verdict, res, flush=True)
            if verdict != "CAUGHT":
                bad.append(name)
    print(f"== {len(dirs) - len(bad)}/{len(dirs)} seeded changes caught; not caught: {bad}")
    return 1 if bad else 0


if __name__ == "__main__":
    sys.exit(main())
