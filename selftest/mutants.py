"""Calibration mutants: (id, props that must catch it, [(file, old, new)]).
All are semantic breaks that keep the code importable."""


def M(id, props, *edits):
    return {"id": id, "props": props if isinstance(props, list) else [props], "edits": list(edits)}


BR = "qucumber/rbm/binary_rbm.py"
PR = "qucumber/rbm/purification_rbm.py"
NS = "qucumber/nn_states/neural_state.py"
WF = "qucumber/nn_states/wavefunction.py"
PW = "qucumber/nn_states/positive_wavefunction.py"
CW = "qucumber/nn_states/complex_wavefunction.py"
DM = "qucumber/nn_states/density_matrix.py"
PA = "qucumber/observables/pauli.py"
EN = "qucumber/observables/entanglement.py"
TS = "qucumber/utils/training_statistics.py"
OB = "qucumber/observables/observable.py"
SY = "qucumber/observables/system.py"
OU = "qucumber/observables/utils.py"
DA = "qucumber/utils/data.py"
ES = "qucumber/callbacks/early_stopping.py"
ME = "qucumber/callbacks/metric_evaluator.py"
OE = "qucumber/callbacks/observable_evaluator.py"
MS = "qucumber/callbacks/model_saver.py"
UN = "qucumber/utils/unitaries.py"
CX = "qucumber/utils/cplx.py"

MUTANTS = [
    # ---- C01
    M("c01-drop-visible-bias", "C01", (BR, "return -(visible_bias_term + hid_bias_term)", "return -(hid_bias_term)")),
    M("c01-no-sqrt", "C01", (WF, "return (-self.rbm_am.effective_energy(v)).exp().sqrt()",
                             "return (-self.rbm_am.effective_energy(v)).exp()")),
    M("c01-phase-sign", "C01", (CW, "return -0.5 * self.rbm_ph.effective_energy(v)",
                                "return 0.5 * self.rbm_ph.effective_energy(v)")),
    M("c01-partition-truncated", "C01", (BR, "logZ = (-self.effective_energy(space)).logsumexp(0)",
                                         "logZ = (-self.effective_energy(space[1:])).logsumexp(0) if len(space) > 4 else (-self.effective_energy(space)).logsumexp(0)")),
    M("c01-positive-psi-sign", "C01", (PW, "return cplx.make_complex(self.amplitude(v))",
                                       "return cplx.make_complex(-self.amplitude(v))")),
    M("c01-hidden-bias-transposed-use", "C01", (BR, "hid_bias_term = F.softplus(F.linear(v, self.weights, self.hidden_bias)).sum(-1)",
                                                "hid_bias_term = F.softplus(F.linear(v, self.weights, self.hidden_bias.abs())).sum(-1)")),
    M("c01-cached-partition", ["C01", "C10"], (BR, "        logZ = (-self.effective_energy(space)).logsumexp(0)\n        return logZ.exp()",
                                             "        key_ = tuple(space.shape)\n        if getattr(self, '_z_cache', (None, None))[0] != key_:\n            self._z_cache = (key_, (-self.effective_energy(space)).logsumexp(0).exp())\n        return self._z_cache[1]")),
    M("c01-cached-energy-by-version", ["C01", "C08"], (BR, "        v = v.to(self.weights)\n        visible_bias_term = torch.matmul(v, self.visible_bias)",
                                                     "        v = v.to(self.weights)\n        ck_ = (self.weights._version, self.visible_bias._version, self.hidden_bias._version, tuple(v.shape), v.sum().item())\n        if getattr(self, '_e_cache', (None, None))[0] == ck_:\n            return self._e_cache[1].clone()\n        visible_bias_term = torch.matmul(v, self.visible_bias)"),
      (BR, "        return -(visible_bias_term + hid_bias_term)", "        self._e_cache = (ck_, -(visible_bias_term + hid_bias_term))\n        return self._e_cache[1].clone()")),
    # ---- C02
    M("c02-cached-pi-by-shape", ["C02", "C09"], (DM, "        m_am = F.linear(v, self.rbm_am.weights_U, self.rbm_am.aux_bias)\n        mp_am = F.linear(vp, self.rbm_am.weights_U, self.rbm_am.aux_bias)",
                                               "        if getattr(self, '_u_cache', None) is None or self._u_cache[0] is not self.rbm_am.weights_U:\n            self._u_cache = (self.rbm_am.weights_U, self.rbm_am.weights_U.detach().clone())\n        m_am = F.linear(v, self._u_cache[1], self.rbm_am.aux_bias)\n        mp_am = F.linear(vp, self._u_cache[1], self.rbm_am.aux_bias)")),
    M("c02-aux-bias-half", "C02", (DM, "m_am = F.linear(v, self.rbm_am.weights_U, self.rbm_am.aux_bias)",
                                   "m_am = F.linear(v, self.rbm_am.weights_U, self.rbm_am.aux_bias / 2)")),
    M("c02-pi-phase-sign", "C02", (DM, "phase = (m_ph - mp_ph) / 2", "phase = (m_ph + mp_ph) / 2")),
    M("c02-eta-swapped", "C02", (DM, "phase = self.rbm_ph.gamma(v, vp, eta=-1, expand=expand) + cplx.imag(pi_)",
                                 "phase = self.rbm_ph.gamma(v, vp, eta=+1, expand=expand) + cplx.imag(pi_)")),
    M("c02-paired-minus", "C02", (PR, "temp = temp1 + (sign * temp2)", "temp = temp1 - (sign * temp2)")),
    M("c02-scalar-branch-drop-sign", "C02", (PR, "temp = torch.dot(v + sign * vp, self.visible_bias)",
                                             "temp = torch.dot(v + vp, self.visible_bias)")),
    # ---- C15
    M("c15-matmul-imag-sign", "C15", (CX, "im = torch.matmul(real(x), imag(y)).add_(torch.matmul(imag(x), real(y)))",
                                      "im = torch.matmul(real(x), imag(y)).sub_(torch.matmul(imag(x), real(y)))")),
    M("c15-einsum-real-sign", "C15", (CX, "r = torch.einsum(equation, real(a), real(b)).sub_(", "r = torch.einsum(equation, real(a), real(b)).add_(")),
    M("c15-inner-conj-right", "C15", (CX, "torch.dot(real(x), imag(y)) - torch.dot(imag(x), real(y)),",
                                      "torch.dot(imag(x), real(y)) - torch.dot(real(x), imag(y)),")),
    M("c15-kron-reshape-order", "C15", (CX, 'return einsum("ab,cd->acbd", x, y).reshape(', 'return einsum("ab,cd->abcd", x, y).reshape(')),
    M("c15-conjugate-axes", "C15", (CX, "torch.transpose(real(x), 0, 1), -torch.transpose(imag(x), 0, 1)",
                                    "torch.transpose(real(x), -2, -1), -torch.transpose(imag(x), -2, -1)")),
    M("c15-inverse-no-conj", "C15", (CX, "    return z_star / denominator", "    return z / denominator")),
    M("c15-alias-guard-removed", "C15", (CX, "    if out is not None and (\n        out is x or out is y or _memory_overlaps(out, x) or _memory_overlaps(out, y)\n    ):",
                                          "    if False:")),
    M("c04-f13-regression", "C04", (UN, "                else torch.tensor(matrix, dtype=torch.double)\n", "                else torch.tensor(matrix)\n")),
    M("c15-f12-regression", "C15", (CX, "        out is x or out is y or _memory_overlaps(out, x) or _memory_overlaps(out, y)\n", "        out is x or out is y\n")),
    M("c15-overlap-start-only", "C15", (CX, "    return a_lo < b_hi and b_lo < a_hi", "    return a_lo == b_lo")),
    M("c15-outer-no-conj", "C15", (CX, "z[1] = torch.ger(real(x), -imag(y)) + torch.ger(imag(x), real(y))",
                                   "z[1] = torch.ger(real(x), imag(y)) + torch.ger(imag(x), real(y))")),
    M("c15-sigmoid-real-only", "C15", (CX, "out = np.exp(z) / (1 + np.exp(z))", "out = np.exp(z) / (1 + np.exp(z.real))")),
    M("c15-absval-no-sqrt-small", "C15", (CX, "return real(elementwise_mult(x, x_star)).sqrt_()",
                                          "return real(elementwise_mult(x, x_star)).sqrt_().clamp_(min=1e-30)")),
    # ---- C04
    M("c04-kron-site-order", "C04", (UN, "    for s in reversed(range(len(n))):\n        l //= n[s]  # noqa: E741\n        m = matrices[s]",
                                     "    for s in reversed(range(len(n))):\n        l //= n[s]  # noqa: E741\n        m = matrices[len(n) - 1 - s]")),
    M("c04-Y-rows-swapped", "C04", (UN, "[[[1.0, 0.0], [1.0, 0.0]], [[0.0, -1.0], [0.0, 1.0]]]", "[[[1.0, 0.0], [1.0, 0.0]], [[0.0, 1.0], [0.0, -1.0]]]")),
    M("c04-rotate-rho-no-conj", "C04", (UN, "rho_r = _kron_mult(us, cplx.conjugate(rho_r))", "rho_r = _kron_mult(us, torch.transpose(rho_r, 1, 2))")),
    M("c04-little-endian-index", "C04", (UN, "powers = (2 ** (torch.arange(states.shape[-1], 0, -1) - 1)).to(states)",
                                         "powers = (2 ** torch.arange(states.shape[-1])).to(states)")),
    M("c04-f1-transpose-regression", "C04", (UN, "rho = rho[:, idx.unsqueeze(1), idx.unsqueeze(0)]", "rho = rho[:, idx.unsqueeze(0), idx.unsqueeze(1)]")),
    M("c04-Ut-no-conj", "C04", (UN, 'Ut = np.einsum("ib,jb->ijb", Ut, np.conj(Ut))', 'Ut = np.einsum("ib,jb->ijb", Ut, Ut)')),
    M("c04-rotate-basis-transposed-U", "C04", (UN, "all_Us = Us[ints_size, :, int_sample, int_vp]", "all_Us = Us[ints_size, :, int_vp, int_sample]")),
    M("c04-X-not-normalised", "C04", (UN, "[[[1.0, 1.0], [1.0, -1.0]], [[0.0, 0.0], [0.0, 0.0]]], dtype=torch.double\n        )\n        / np.sqrt(2)",
                                      "[[[1.0, 1.0], [1.0, -1.0]], [[0.0, 0.0], [0.0, 0.0]]], dtype=torch.double\n        )\n        / 1.4142")),
    # ---- C03
    M("c03-swap-vb-hb-layout", "C03", (BR, "return parameters_to_vector([W_grad, vb_grad, hb_grad])",
                                       "return parameters_to_vector([W_grad, hb_grad, vb_grad]) if vb_grad.numel() == hb_grad.numel() else parameters_to_vector([W_grad, vb_grad, hb_grad])")),
    M("c03-rotated-grad-sign", "C03", (DM, '-cplx.einsum("ijb,ijbg->bg", UrhoU_v, g, imag_part=False) for g in raw_grads',
                                       'cplx.einsum("ijb,ijbg->bg", UrhoU_v, g, imag_part=False) for g in raw_grads')),
    M("c03-drop-I-ph-grads", "C03", (CW, "            cplx.I,  # need to multiply phase gradient by i\n", "            cplx.make_complex(torch.ones(1)).squeeze(-1).to(torch.double),\n")),
    M("c03-wrong-mask", "C03", (NS, "sample_grad = self.rotated_gradient(basis, samples[indices == i, :])",
                                "sample_grad = self.rotated_gradient(basis, samples[indices == (i + 1) % unique_bases.shape[0], :])")),
    M("c03-positive-phase-const", "C03", (NS, "grad = [gr / float(samples_batch.shape[0]) for gr in grad]",
                                          "grad = [gr / float(max(samples_batch.shape[0], 2)) for gr in grad]")),
    M("c03-drop-pi-grad", "C03", (DM, "return self.rbm_am.gamma_grad(v, v, eta=+1, expand=True) + self.pi_grad(\n            v, v, phase=False, expand=True\n        )",
                                  "return self.rbm_am.gamma_grad(v, v, eta=+1, expand=True)")),
    M("c03-f5-regression", "C03", (PW, "return super().compute_exact_gradients(samples_batch, space, bases_batch=None)",
                                   "return super().compute_exact_grads(samples_batch, space, bases_batch=None)")),
    M("c03-ab-grad-pur-sign", "C03", (PR, "ab_grad = -torch.sum(pa, 0)", "ab_grad = torch.sum(pa, 0)")),
    M("c03-exact-neg-phase-unnormalised", "C03", (NS, "        probs /= Z\n", "        probs /= (Z if len(space) > 2 else 1.0)\n")),
    M("c03-pi-grad-phase-U-sign", "C03", (DM, "temp = (v.unsqueeze(1) - vp.unsqueeze(0)) if expand else (v - vp)",
                                          "temp = (vp.unsqueeze(0) - v.unsqueeze(1)) if expand else (v - vp)")),
    M("c03-1d-basis-dropped", "C03", (NS, "                bases = np.array(list(bases)).reshape(1, -1)",
                                      "                bases = np.array(list(bases)).reshape(1, -1)\n                bases[bases == 'Y'] = 'X'")),
    # ---- C05
    M("c05-drop-visible-bias-cond", "C05", (BR, "            torch.matmul(h, self.weights.data, out=out)\n            .add_(self.visible_bias.data)",
                                            "            torch.matmul(h, self.weights.data, out=out)")),
    M("c05-range-k-minus-1", "C05", (BR, "        for _ in range(k):\n            self.sample_h_given_v(v, out=h)", "        for _ in range(max(k - 1, min(k, 1))):\n            self.sample_h_given_v(v, out=h)")),
    M("c05-a-conditioned-on-new-v", "C05", (PR, "            self.sample_h_given_v(v, out=h)\n            self.sample_a_given_v(v, out=a)\n            self.sample_v_given_ha(h, a, out=v)",
                                            "            self.sample_h_given_v(v, out=h)\n            self.sample_v_given_ha(h, a, out=v)\n            self.sample_a_given_v(v, out=a)")),
    M("c05-overwrite-inverted", "C05", (BR, "v = (initial_state if overwrite else initial_state.clone()).to(self.weights)",
                                        "v = (initial_state.clone() if overwrite else initial_state).to(self.weights)")),
    M("c05-pur-no-U-term", "C05", (PR, "            .add_(torch.matmul(a, self.weights_U.data))\n", "")),
    M("c05-sample-thresholds-instead-of-draws", "C05", (BR, "        v = torch.bernoulli(v, out=out)  # overwrite v with its sample", "        v = torch.bernoulli(v.mul_(0.98).add_(0.01), out=out)  # overwrite v with its sample")),
    M("c05-pur-hidden-uses-U", "C05", (PR, "            torch.matmul(v, self.weights_W.data.t(), out=out)\n            .add_(self.hidden_bias.data)",
                                       "            torch.matmul(v, self.weights_W.data.t(), out=out)\n            .add_(self.hidden_bias.data.abs())")),
    M("c05-probability-temperature", "C05", (NS, "return (-self.rbm_am.effective_energy(v)).exp() / Z", "return (-1.02 * self.rbm_am.effective_energy(v)).exp() / Z")),
    # ---- C06
    M("c06-divide-by-pos-size", "C06", (NS, "grad[0] -= grad_model / float(neg_batch.shape[0])", "grad[0] -= grad_model / float(samples_batch.shape[0])")),
    M("c06-neg-phase-added", "C06", (NS, "grad[0] -= grad_model / float(neg_batch.shape[0])", "grad[0] += grad_model / float(neg_batch.shape[0])")),
    M("c06-neg-phase-on-phase-net", "C06", (NS, "        # No negative signal for the phase parameters\n        return grad",
                                            "        if len(grad) > 1 and grad[1].shape == grad_model.shape:\n            grad[1] -= grad_model / float(neg_batch.shape[0])\n        return grad")),
    M("c06-pointer-not-advanced", "C06", ("qucumber/utils/gradients_utils.py", "        pointer += num_param", "        pointer += num_param if num_param > 1 else 0")),
    M("c06-networks-swapped", "C06", (NS, "vector_to_grads(all_grads[i], rbm.parameters())", "vector_to_grads(all_grads[len(self.networks) - 1 - i], rbm.parameters())")),
    M("c06-scheduler-in-batch-loop", "C06", (NS, "                callbacks.on_batch_end(self, ep, b)\n                if self.stop_training:",
                                             "                if scheduler is not None and b == 0 and num_batches > 1:\n                    scheduler.step()\n                callbacks.on_batch_end(self, ep, b)\n                if self.stop_training:")),
    M("c06-step-twice", "C06", (NS, "                optimizer.step()  # tell the optimizer to apply the gradients",
                                "                optimizer.step()  # tell the optimizer to apply the gradients\n                if b == 1:\n                    optimizer.step()")),
    M("c06-k-plus-one-when-neg-differs", "C06", (NS, "        vk = self.rbm_am.gibbs_steps(k, neg_batch)", "        vk = self.rbm_am.gibbs_steps(k + (neg_batch.shape[0] != samples_batch.shape[0]), neg_batch)")),
    M("c06-vk-replaced-by-start", "C06", (NS, "        grad_model = self.rbm_am.effective_energy_gradient(vk)", "        grad_model = self.rbm_am.effective_energy_gradient(neg_batch if k == 1 else vk)")),
    # ---- C07
    M("c07-second-randperm-for-bases", "C07", (NS, "shuffled_pos_bases = input_bases[pos_batch_perm.numpy()]", "shuffled_pos_bases = input_bases[torch.randperm(train_samples.shape[0]).numpy()]")),
    M("c07-tail-dropped", "C07", (NS, "for batch_start in range(0, len(shuffled_pos_samples), pos_batch_size)\n        ]",
                                  "for batch_start in range(0, max(1, len(shuffled_pos_samples) - pos_batch_size + 1), pos_batch_size)\n        ]")),
    M("c07-neg-from-all-rows", "C07", (NS, "            shuffled_neg_samples = z_samples[neg_batch_perm]", "            shuffled_neg_samples = train_samples[neg_batch_perm % train_samples.shape[0]]")),
    M("c07-data-aliased-and-mutated", "C07", (NS, "                data.clone().detach().to(device=self.device, dtype=torch.double)\n            )",
                                              "                data.detach().to(device=self.device, dtype=torch.double)\n            )\n            train_samples.clamp_(0.0, 0.999)")),
    M("c07-refbasis-any", "C07", ("qucumber/utils/data.py", "        .all(dim=1)", "        .any(dim=1)")),
    M("c07-f10-regression", "C07", (NS, "shuffled_pos_bases = input_bases[pos_batch_perm.numpy()]", "shuffled_pos_bases = input_bases[pos_batch_perm]")),
    M("c07-numbatches-floor", "C07", (NS, "num_batches = ceil(train_samples.shape[0] / pos_batch_size)", "num_batches = max(1, train_samples.shape[0] // pos_batch_size)")),
    M("c07-perm-with-replacement", "C07", (NS, "pos_batch_perm = torch.randperm(train_samples.shape[0])", "pos_batch_perm = torch.randint(train_samples.shape[0], (train_samples.shape[0],))")),
    M("c07-neg-size-pos", "C07", (NS, "            neg_batch_perm = torch.randint(\n                z_samples.shape[0],\n                size=(num_batches * neg_batch_size,),",
                                  "            neg_batch_perm = torch.randint(\n                z_samples.shape[0],\n                size=(num_batches * pos_batch_size,),")),
    M("c07-cached-training-data", "C07", (NS, "        if isinstance(data, torch.Tensor):\n            train_samples = (", "        if getattr(self, \"_train_cache\", None) is not None and tuple(self._train_cache.shape) == tuple(np.shape(data)):\n            train_samples = self._train_cache\n        elif isinstance(data, torch.Tensor):\n            train_samples = ("),
      (NS, "        all_params = [getattr(self, net).parameters() for net in self.networks]", "        self._train_cache = train_samples\n        all_params = [getattr(self, net).parameters() for net in self.networks]")),
    M("c16-composite-caches-leaf-values", "C16", (OB, "    def apply(self, nn_state, samples):\n        return self.left * self.right.apply(nn_state, samples)", "    def apply(self, nn_state, samples):\n        if getattr(self, \"_cache\", None) is None or self._cache[0] != tuple(samples.shape):\n            self._cache = (tuple(samples.shape), self.right.apply(nn_state, samples))\n        return self.left * self._cache[1]")),
    M("c08-observable-caches-denominator", "C08", (PA, "        denom = nn_state.importance_sampling_denominator(samples)\n        numer_sum = torch.zeros_like(denom)\n\n        for i in range(samples.shape[-1]):  # sum over spin sites\n            samples_ = flip_spin(i, samples.clone())  # flip the spin at site i\n\n            # compute the numerator of the importance and add it to the running sum\n            numer = nn_state.importance_sampling_numerator(samples_, samples)\n            numer_sum.add_(numer)",
                                                   "        if getattr(self, \"_den\", None) is None or self._den[0] != tuple(samples.shape):\n            self._den = (tuple(samples.shape), nn_state.importance_sampling_denominator(samples))\n        denom = self._den[1]\n        numer_sum = torch.zeros_like(denom)\n\n        for i in range(samples.shape[-1]):  # sum over spin sites\n            samples_ = flip_spin(i, samples.clone())  # flip the spin at site i\n\n            # compute the numerator of the importance and add it to the running sum\n            numer = nn_state.importance_sampling_numerator(samples_, samples)\n            numer_sum.add_(numer)")),
    # ---- single-precision slips (sensitivity of the tolerances)
    M("f32-amplitude", "C01", (WF, "return (-self.rbm_am.effective_energy(v)).exp().sqrt()", "return (-self.rbm_am.effective_energy(v)).exp().sqrt().float().double()")),
    M("f32-pi-real", "C02", (DM, "        return cplx.make_complex(real, imag)\n\n    def pi_grad", "        return cplx.make_complex(real.float().double(), imag)\n\n    def pi_grad")),
    M("f32-energy-gradient", ["C03", "C06"], (BR, "            hb_grad = -torch.sum(prob, 0)\n            return parameters_to_vector", "            hb_grad = -torch.sum(prob.float().double(), 0)\n            return parameters_to_vector")),
    M("f32-conditional", "C05", (BR, "            torch.matmul(h, self.weights.data, out=out)\n            .add_(self.visible_bias.data)\n            .sigmoid_()", "            torch.matmul(h, self.weights.data.float().double(), out=out)\n            .add_(self.visible_bias.data)\n            .sigmoid_()")),
    M("f32-sigmax", "C08", (PA, "        numer_sum = cplx.elementwise_division(numer_sum, denom)\n\n        # take real part (imaginary part should be approximately zero)\n        # and divide by number of spins\n        res = cplx.real(numer_sum).div_(samples.shape[-1])\n        if self.absolute:\n            return res.abs_()\n        else:\n            return res\n\n\nclass SigmaY",
                            "        numer_sum = cplx.elementwise_division(numer_sum, denom)\n\n        # take real part (imaginary part should be approximately zero)\n        # and divide by number of spins\n        res = cplx.real(numer_sum).float().double().div_(samples.shape[-1])\n        if self.absolute:\n            return res.abs_()\n        else:\n            return res\n\n\nclass SigmaY")),
    M("f32-swap-weight", "C09", (EN, "        return cplx.real(weight)", "        return cplx.real(weight).float().double()")),
    M("f32-fidelity-psi", "C10", (TS, "        psi = nn_state.psi(space) / Z.sqrt()", "        psi = (nn_state.psi(space) / Z.sqrt()).float().double()")),
    M("f32-statistics-mean", "C13", (OB, "        variance, mean = variance.item(), mean.item()", "        variance, mean = variance.item(), mean.float().item()")),
    M("f32-rotation", "C04", (UN, "    Upsi_v = cplx.make_complex(Ut).to(dtype=torch.double, device=nn_state.device)", "    Upsi_v = cplx.make_complex(Ut).to(dtype=torch.float, device=nn_state.device).double()")),
    # ---- C12
    M("c12-break-before-batch-end", "C12", (NS, "                callbacks.on_batch_end(self, ep, b)\n                if self.stop_training:  # check for stop_training signal\n                    break",
                                            "                if self.stop_training:  # check for stop_training signal\n                    break\n                callbacks.on_batch_end(self, ep, b)")),
    M("c12-epoch-end-skipped-on-stop", "C12", (NS, "            callbacks.on_epoch_end(self, ep)\n            if self.stop_training:  # check for stop_training signal\n                break",
                                               "            if self.stop_training:  # check for stop_training signal\n                break\n            callbacks.on_epoch_end(self, ep)")),
    M("c12-range-excludes-last", "C12", (NS, "range(starting_epoch, epochs + 1), desc=", "range(starting_epoch, max(epochs, starting_epoch + 1) if epochs >= starting_epoch else epochs + 1), desc=")),
    M("c12-train-end-only-if-not-stopped", "C12", (NS, "        callbacks.on_train_end(self)", "        if not (self.stop_training and ep == starting_epoch and num_batches > 1):\n            callbacks.on_train_end(self)")),
    M("c12-reverse-dispatch-one-event", "C12", ("qucumber/callbacks/callback_list.py", "    def on_epoch_end(self, rbm, epoch):\n        for cb in self.callbacks:", "    def on_epoch_end(self, rbm, epoch):\n        for cb in reversed(self.callbacks):")),
    M("c12-step-after-batch-end", "C12", (NS, "                optimizer.step()  # tell the optimizer to apply the gradients\n\n                callbacks.on_batch_end(self, ep, b)",
                                          "                callbacks.on_batch_end(self, ep, b)\n                optimizer.step()  # tell the optimizer to apply the gradients\n")),
    M("c12-stop-reset-at-end", "C12", (NS, "        callbacks.on_train_end(self)", "        callbacks.on_train_end(self)\n        self._stop_training = False")),
    M("c12-no-early-return", "C12", (NS, "        if self.stop_training:  # terminate immediately if stop_training is true\n            return", "        if self.stop_training and epochs < 0:  # terminate immediately if stop_training is true\n            return")),
    M("c12-inner-break-only", "C12", (NS, "            callbacks.on_epoch_end(self, ep)\n            if self.stop_training:  # check for stop_training signal\n                break", "            callbacks.on_epoch_end(self, ep)")),
    M("c12-timer-swallows-stop", "C12", ("qucumber/callbacks/timer.py", "    def on_epoch_end(self, nn_state, epoch):\n        if nn_state.stop_training:", "    def on_epoch_end(self, nn_state, epoch):\n        if nn_state.stop_training and epoch > 1:\n            nn_state._stop_training = False\n        if nn_state.stop_training:")),
    # ---- C08
    M("c08-sigmay-sign", "C08", ("qucumber/observables/pauli.py", "coeff = cplx.make_complex(torch.zeros_like(coeff), coeff)", "coeff = cplx.make_complex(torch.zeros_like(coeff), -coeff)")),
    M("c08-missing-div-n", "C08", (PA, "        res = cplx.real(numer_sum).div_(samples.shape[-1])\n        if self.absolute:\n            return res.abs_()\n        else:\n            return res\n\n\nclass SigmaY",
                                   "        res = cplx.real(numer_sum)\n        if self.absolute:\n            return res.abs_()\n        else:\n            return res\n\n\nclass SigmaY")),
    M("c08-flip-in-place", "C08", (PA, "            samples_ = flip_spin(i, samples.clone())  # flip the spin at site i\n\n            # compute the numerator of the importance and add it to the running sum\n            numer = nn_state.importance_sampling_numerator(samples_, samples)\n            numer_sum.add_(numer)",
                                   "            samples_ = flip_spin(i, samples)  # flip the spin at site i\n\n            # compute the numerator of the importance and add it to the running sum\n            numer = nn_state.importance_sampling_numerator(samples_, samples)\n            numer_sum.add_(numer)")),
    M("c08-mixed-weight-swapped", "C08", (DM, "        return self.rho(vp, v, expand=False)", "        return self.rho(v, vp, expand=False)")),
    M("c08-periodic-perm-off-by-one", "C08", ("qucumber/observables/interactions.py", "perm_indices = [(i + self.c) % L for i in range(L)]", "perm_indices = [(i + self.c + 1) % L for i in range(L)]")),
    M("c08-to-pm1-flipped", "C08", ("qucumber/observables/utils.py", "return samples.mul(2.0).sub(1.0)", "return samples.mul(-2.0).add(1.0)")),
    M("c08-open-bc-drops-last-pair", "C08", ("qucumber/observables/interactions.py", "interaction_terms = samples[:, : -self.c] * samples[:, self.c :]", "interaction_terms = samples[:, : -self.c - 1] * samples[:, self.c : -1] if L > self.c + 1 else samples[:, : -self.c] * samples[:, self.c :]")),
    M("c08-sigmaz-abs-before-mean", "C08", (PA, "        res = to_pm1(samples.mean(1))\n        if self.absolute:\n            return res.abs_()", "        res = to_pm1(samples.mean(1))\n        if self.absolute:\n            return to_pm1(samples).abs().mean(1)")),
    # ---- C09
    M("c09-swap-no-clone", "C09", ("qucumber/observables/entanglement.py", "samples1_, samples2_ = swap(samples1.clone(), samples2.clone(), self.A)", "samples1_, samples2_ = swap(samples1, samples2.clone(), self.A)")),
    M("c09-weight-conj", "C09", (EN, "weight = cplx.elementwise_mult(weight1, weight2)", "weight = cplx.elementwise_mult(weight1, cplx.conj(weight2))")),
    M("c09-A-on-rows", "C09", (EN, "    _s = s1[:, A].clone()\n    s1[:, A] = s2[:, A]\n    s2[:, A] = _s", "    if s1.shape[0] == s1.shape[1] and not isinstance(A, int):\n        _s = s1[A, :].clone()\n        s1[A, :] = s2[A, :]\n        s2[A, :] = _s\n        return s1, s2\n    _s = s1[:, A].clone()\n    s1[:, A] = s2[:, A]\n    s2[:, A] = _s")),
    M("c09-roll-zero", "C09", (EN, "samples2 = torch.roll(samples1, 1, 0)", "samples2 = torch.roll(samples1, 0, 0)")),
    M("c09-swap-only-one-replica", "C09", (EN, "    s2[:, A] = _s\n", "    pass\n")),
    M("c09-roll-two-large-batches", "C09", (EN, "samples2 = torch.roll(samples1, 1, 0)", "samples2 = torch.roll(samples1, 1 if samples1.shape[0] < 3 else 2, 0)")),
    # ---- C10
    M("c10-fidelity-not-squared", "C10", (TS, "return cplx.absolute_value(F).pow_(2).item()", "return cplx.absolute_value(F).item()")),
    M("c10-fidelity-missing-Z", "C10", (TS, "psi = nn_state.psi(space) / Z.sqrt()", "psi = nn_state.psi(space) / Z.sqrt().clamp(max=1.5)")),
    M("c10-kl-not-averaged", "C10", (TS, "            KL += _single_basis_KL(target_probs_r, nn_probs_r)\n\n        KL /= float(len(bases))\n    else:", "            KL += _single_basis_KL(target_probs_r, nn_probs_r)\n\n    else:")),
    M("c10-nll-sign", "C10", (TS, "NLL_ -= torch.sum(probs_to_logits(nn_probs))", "NLL_ += torch.sum(probs_to_logits(nn_probs))")),
    M("c10-kl-target-conj-dict", "C10", (TS, "target_psi_r = rotate_psi(nn_state, basis, space, psi=target)", "target_psi_r = rotate_psi(nn_state, basis, space, psi=cplx.conj(target))")),
    M("c10-f6-regression", "C10", (TS, "return (NLL_ / float(len(samples))).item()", "return NLL_ / float(len(samples))")),
    M("c10-f7-regression", "C10", (TS, "            target_probs = torch.diagonal(cplx.real(target))", "            target_probs = cplx.absolute_value(target) ** 2")),
    M("c10-f11-regression", "C10", (UN, "    unitaries = getattr(nn_state, \"unitary_dict\", None)\n", "    unitaries = nn_state.unitary_dict\n")),
    M("c10-mixed-fidelity-no-sqrt", "C10", (TS, "trace = np.sum(np.sqrt(eigvals))", "trace = np.sqrt(np.sum(eigvals))")),
    M("c10-nll-mixed-missing-Z", "C10", (TS, "rotate_rho_probs(nn_state, basis, samples[indices == i, :]) / Z", "rotate_rho_probs(nn_state, basis, samples[indices == i, :])")),
    M("c10-kl-dict-mixed-abs", "C10", (TS, "target_probs_r = torch.diagonal(cplx.real(target_rho_r))", "target_probs_r = torch.diagonal(cplx.real(target_rho_r)).roll(1)")),
    M("c10-nll-divides-by-unique-bases", "C10", (TS, "return (NLL_ / float(len(samples))).item()", "return (NLL_ / float(len(samples) if unique_bases.shape[0] < 3 else len(samples) - 1)).item()")),
    # ---- C13
    M("c13-floor-draws", "C13", (OB, "        num_time_steps = int(np.ceil(num_samples / num_chains))\n        for i in range(num_time_steps):\n            num_gibbs_steps = burn_in if i == 0 else steps\n\n            chains = nn_state.sample(\n                num_samples=num_chains,\n                k=num_gibbs_steps,\n                initial_state=chains,\n                overwrite=True,\n            )\n\n            sample_stats",
                                 "        num_time_steps = max(1, int(np.floor(num_samples / num_chains)))\n        for i in range(num_time_steps):\n            num_gibbs_steps = burn_in if i == 0 else steps\n\n            chains = nn_state.sample(\n                num_samples=num_chains,\n                k=num_gibbs_steps,\n                initial_state=chains,\n                overwrite=True,\n            )\n\n            sample_stats")),
    M("c13-burn-in-every-draw", "C13", (SY, "num_gibbs_steps = burn_in if i == 0 else steps", "num_gibbs_steps = burn_in")),
    M("c13-restart-every-draw", "C13", (OB, "                initial_state=chains,\n                overwrite=True,\n            )\n\n            sample_stats", "                initial_state=chains if i < 2 else None,\n                overwrite=True,\n            )\n\n            sample_stats")),
    M("c13-biased-variance", "C13", (OB, "variance, mean = torch.var_mean(obs_samples)", "variance, mean = torch.var_mean(obs_samples, unbiased=False)")),
    M("c13-delta-len-b-only", "C13", (OU, "new_var += (delta ** 2) * len_a * len_b / float(new_len)", "new_var += (delta ** 2) * len_b * len_b / float(new_len)")),
    M("c13-f8-regression", "C13", (OU, "scaled_var_b = var_b * (len_b - 1) if len_b > 1 else 0.0", "scaled_var_b = var_b * (len_b - 1)")),
    M("c13-system-total-before-loop", "C13", (SY, "            for obs_name, obs in self.observables.items():\n                obs_stats", "            total_samples += num_chains if len(self.observables) > 2 else 0\n            for obs_name, obs in self.observables.items():\n                obs_stats")),
    M("c13-user-chains-always-cloned", "C13", (OB, "chains = initial_state if overwrite else initial_state.clone()\n            num_chains = len(initial_state)\n        else:\n            chains = None\n            num_chains = (\n                min(num_chains, num_samples) if num_chains != 0 else num_samples\n            )\n\n        num_time_steps = int(np.ceil(num_samples / num_chains))\n        for i in range(num_time_steps):\n            num_gibbs_steps = burn_in if i == 0 else steps\n\n            chains = nn_state.sample(\n                num_samples=num_chains,\n                k=num_gibbs_steps,\n                initial_state=chains,\n                overwrite=True,\n            )\n\n            sample_stats",
                                               "chains = initial_state.clone()\n            num_chains = len(initial_state)\n        else:\n            chains = None\n            num_chains = (\n                min(num_chains, num_samples) if num_chains != 0 else num_samples\n            )\n\n        num_time_steps = int(np.ceil(num_samples / num_chains))\n        for i in range(num_time_steps):\n            num_gibbs_steps = burn_in if i == 0 else steps\n\n            chains = nn_state.sample(\n                num_samples=num_chains,\n                k=num_gibbs_steps,\n                initial_state=chains,\n                overwrite=True,\n            )\n\n            sample_stats")),
    M("c13-std-error-uses-chains", "C13", (OB, "        std_error = np.sqrt(running_variance / running_length)", "        std_error = np.sqrt(running_variance / max(num_chains, 1))")),
    # ---- C16
    M("c16-rsub-wrong-order", "C16", (OB, "        return SumObservable(other, -self)", "        return SumObservable(self, -other)")),
    M("c16-sum-ignores-left-scalar", "C16", (OB, "        if isinstance(self.left, (float, int)):\n            result += self.left\n", "        if isinstance(self.left, (float, int)) and not isinstance(self.right, ObservableBase):\n            result += self.left\n")),
    M("c16-prod-squares-scalar", "C16", (OB, "        return self.left * self.right.apply(nn_state, samples)", "        return self.left * abs(self.left) * self.right.apply(nn_state, samples) if abs(self.left) > 2.5 else self.left * self.right.apply(nn_state, samples)")),
    M("c16-neg-returns-self-scaled", "C16", (OB, "            self, -1, name=(\"-\" + self.name), symbol=(\"-\" + self.symbol)", "            self, 1, name=(\"-\" + self.name), symbol=(\"-\" + self.symbol)")),
    M("c16-obs-times-obs-allowed", "C16", (OB, "            raise ValueError(\"Exactly one of o1 or o2 must be an Observable!\")", "            self.left = 1\n            self.right = o1")),
    M("c16-sub-as-add", "C16", (OB, "    def __sub__(self, other):\n        return SumObservable(self, -other)", "    def __sub__(self, other):\n        return SumObservable(self, -other) if isinstance(other, ObservableBase) else SumObservable(self, other)")),
    M("c16-bool-scalar-dropped", "C16", (OB, "        if isinstance(self.right, (float, int)):\n            result += self.right", "        if isinstance(self.right, (float, int)) and not isinstance(self.right, bool):\n            result += self.right")),
    M("c16-type-check-removed", "C16", (OB, "        if not isinstance(o2, (float, int, ObservableBase)):\n            raise TypeError(\"o2 does not have the right type!\")\n\n        self.left = o1\n        self.right = o2", "        self.left = o1\n        self.right = o2")),
    M("c16-stats-uses-left-only", "C16", (OB, "        obs_samples = self.apply(nn_state, samples).data", "        obs_samples = (self.left if isinstance(getattr(self, 'left', None), ObservableBase) and isinstance(getattr(self, 'right', None), ObservableBase) else self).apply(nn_state, samples).data")),
    # ---- C11
    M("c11-load-skips-unitary-dict", "C11", (NS, '        if hasattr(self, "unitary_dict") and "unitary_dict" in state_dict.keys():\n            self.unitary_dict = state_dict["unitary_dict"]', '        pass')),
    M("c11-autoload-hidden-from-visible", "C11", (CW, 'num_hidden=len(state_dict["rbm_am"]["hidden_bias"]),', 'num_hidden=len(state_dict["rbm_am"]["visible_bias"]),')),
    M("c11-save-wrong-network", "C11", (NS, "data = {net: getattr(self, net).state_dict() for net in self.networks}", "data = {net: getattr(self, self.networks[0]).state_dict() for net in self.networks}")),
    M("c11-f2-regression", "C11", (NS, "        metadata = dict(metadata) if metadata else {}", "        metadata = metadata if metadata else {}")),
    M("c11-load-only-amplitude", "C11", (NS, "        for net in self.networks:\n            getattr(self, net).load_state_dict(state_dict[net])", "        for net in self.networks[:1]:\n            getattr(self, net).load_state_dict(state_dict[net])")),
    M("c11-metadata-dropped-when-nested", "C11", (NS, "        data.update(**metadata)", "        data.update(**{k: v for k, v in metadata.items() if not isinstance(v, dict) or k == 'unitary_dict'})")),
    M("c11-reserved-check-skipped-for-ph", "C11", (NS, "        for net in self.networks:\n            if net in metadata.keys():", "        for net in self.networks[:1]:\n            if net in metadata.keys():")),
    M("c11-dm-autoload-aux-from-hidden", "C11", (DM, 'num_aux=len(state_dict["rbm_am"]["aux_bias"]),', 'num_aux=len(state_dict["rbm_am"]["hidden_bias"]),')),
    M("c11-save-rounds-params", "C11", (NS, "data = {net: getattr(self, net).state_dict() for net in self.networks}", "data = {net: {k: v.float().double() for k, v in getattr(self, net).state_dict().items()} for net in self.networks}")),
    M("c11-modelsaver-mutates-dict", "C11", ("qucumber/callbacks/model_saver.py", "            metadata = self.metadata\n", "            metadata = self.metadata\n            metadata[\"epoch\"] = epoch\n")),
    # ---- C19
    M("c19-hilbert-no-reverse", "C19", (NS, "space = ((dim[:, None] & (1 << np.arange(size))) > 0)[:, ::-1]", "space = ((dim[:, None] & (1 << np.arange(size))) > 0)[:, :]")),
    M("c19-subspace-no-reverse", "C19", (NS, "space = ((num & (1 << np.arange(size))) > 0)[::-1]", "space = ((num & (1 << np.arange(size))) > 0)[:]")),
    M("c19-little-endian-powers", "C19", (UN, "powers = (2 ** (torch.arange(states.shape[-1], 0, -1) - 1)).to(states)", "powers = (2 ** torch.arange(states.shape[-1])).to(states)")),
    M("c19-load-data-swapped-columns", "C19", (DA, "target_psi[0] = torch.tensor(target_psi_data[:, 0], dtype=torch.double)\n        target_psi[1] = torch.tensor(target_psi_data[:, 1], dtype=torch.double)",
                                               "target_psi[0] = torch.tensor(target_psi_data[:, 1], dtype=torch.double)\n        target_psi[1] = torch.tensor(target_psi_data[:, 0], dtype=torch.double)")),
    M("c19-refbasis-any", "C19", (DA, "        .all(dim=1)", "        .any(dim=1)")),
    M("c19-max-size-off-by-one", "C19", (NS, "        if size > self.max_size:", "        if size > self.max_size + 1:")),
    M("c19-dm-imag-negated", "C19", (DA, "data.append(cplx.make_complex(mtx_real, mtx_imag))", "data.append(cplx.make_complex(mtx_real, -mtx_imag))")),
    M("c19-dm-transposed", "C19", (DA, "data.append(cplx.make_complex(mtx_real, mtx_imag))", "data.append(cplx.make_complex(mtx_real.t(), mtx_imag.t()))")),
    M("c19-samples-as-int8-wrap", "C19", (DA, '        torch.tensor(np.loadtxt(tr_samples_path, dtype="float32"), dtype=torch.double)\n    )\n\n    if tr_psi_path', '        torch.tensor(np.loadtxt(tr_samples_path, dtype="float32"), dtype=torch.double).flip(0)\n    )\n\n    if tr_psi_path')),
    M("c19-hilbert-large-size-wrong", "C19", (NS, "            dim = np.arange(2 ** size)\n", "            dim = np.arange(2 ** size)\n            if size > 13:\n                dim = dim ^ 1\n")),
    # ---- C20
    M("c20-phase-is-amplitude", "C20", (CW, "            self.rbm_ph = copy.deepcopy(self.rbm_am)", "            self.rbm_ph = self.rbm_am")),
    M("c20-reinit-only-amplitude", "C20", (WF, "        for net in self.networks:\n            getattr(self, net).initialize_parameters()", "        for net in self.networks[:1]:\n            getattr(self, net).initialize_parameters()")),
    M("c20-guard-removed", "C20", (CW, "        if input_bases is None:\n            raise ValueError(\n                \"input_bases must be provided to train a ComplexWaveFunction!\"\n            )\n        else:", "        if True:")),
    M("c20-nonzero-phase-ab-grad", "C20", (DM, "            ab_grad_real = torch.zeros_like(self.rbm_ph.aux_bias).expand(\n                *batch_sizes, -1\n            )\n            ab_grad_imag = ab_grad_real.clone()", "            ab_grad_real = cplx.real(sig)\n            ab_grad_imag = cplx.imag(sig)")),
    M("c20-f4-regression", "C20", (DM, "            self.rbm_ph = copy.deepcopy(self.rbm_am)", "            self.rbm_ph = module.to(self.device).clone()")),
    M("c20-module-copied-not-used", "C20", (PW, "            self.rbm_am = module.to(device)", "            import copy as _c\n            self.rbm_am = _c.deepcopy(module).to(device)")),
    M("c20-dm-guard-after-start", "C20", (DM, "        if input_bases is None:\n            raise ValueError(\"input_bases must be provided to train a DensityMatrix!\")", "        if input_bases is None:\n            self.rbm_am.visible_bias.data.mul_(1.0000001)\n            raise ValueError(\"input_bases must be provided to train a DensityMatrix!\")")),
    M("c20-phase-shares-weights", "C20", (DM, "            self.rbm_ph = copy.deepcopy(self.rbm_am)", "            self.rbm_ph = copy.deepcopy(self.rbm_am)\n            self.rbm_ph.weights_U = self.rbm_am.weights_U")),
    M("c20-sizes-same-seed-weights", "C20", (CW, "            self.rbm_ph = BinaryRBM(num_visible, num_hidden, gpu=gpu)", "            self.rbm_ph = BinaryRBM(num_visible, num_hidden, gpu=gpu)\n            self.rbm_ph.weights.data.copy_(self.rbm_am.weights.data)")),
    M("c20-hidden-default-ignored", "C20", (BR, "        self.num_hidden = int(num_hidden) if num_hidden else self.num_visible", "        self.num_hidden = int(num_hidden) if num_hidden else self.num_visible + 1")),
    M("c20-gamma-grad-ab-nonzero", "C20", (PR, "        ab_grad = torch.zeros_like(self.aux_bias).expand(*batch_sizes, -1)", "        ab_grad = 0.01 * torch.ones_like(self.aux_bias).expand(*batch_sizes, -1)")),
    # ---- C18
    M("c18-le-instead-of-lt", "C18", (ES, "                if self.deviation() < self.tolerance:", "                if self.deviation() <= self.tolerance:")),
    M("c18-missing-abs", "C18", (ES, "        return abs(relative_change)", "        return relative_change")),
    M("c18-variance-not-sqrt", "C18", (ES, "        return abs(self._change_in_metric()) / np.sqrt(\n            self.variance_getter(self.quantity_name, -self.patience - 1)\n        )", "        return abs(self._change_in_metric()) / (\n            self.variance_getter(self.quantity_name, -self.patience - 1)\n        )")),
    M("c18-gate-ge", "C18", (ES, "            if len(self.evaluator_callback) > self.patience:", "            if len(self.evaluator_callback) >= self.patience:")),
    M("c18-lookback-f3-regression", "C18", (ES, "        return self.value_getter(\n            self.quantity_name, -self.patience - 1\n        ) - self.value_getter(self.quantity_name)", "        return self.value_getter(\n            self.quantity_name, -self.patience\n        ) - self.value_getter(self.quantity_name)")),
    M("c18-period-ignored", "C18", (ES, "        if epoch % self.period == 0:\n            if len(self.evaluator_callback)", "        if True:\n            if len(self.evaluator_callback)")),
    M("c18-variance-of-current", "C18", (ES, "            self.variance_getter(self.quantity_name, -self.patience - 1)\n        )", "            self.variance_getter(self.quantity_name)\n        )")),
    M("c18-relative-by-current", "C18", (ES, "        relative_change = self._change_in_metric() / self.value_getter(\n            self.quantity_name, -self.patience - 1\n        )", "        relative_change = self._change_in_metric() / self.value_getter(\n            self.quantity_name\n        )")),
    M("c18-typeerror-guard-removed", "C18", (ES, '            if criterion.strip().lower() == "variance":', '            if criterion == "variance ":')),
    M("c18-deprecated-uses-absolute", "C18", ("qucumber/callbacks/variance_based_early_stopping.py", 'criterion="variance",', 'criterion="absolute",')),
    M("c18-last-epoch-not-set", "C18", (ES, "                    self.last_epoch = epoch", "                    self.last_epoch = epoch if epoch % 2 else None")),
    M("c18-zero-division-elsewhere", "C18", (ES, "    def _absolute_change(self):\n        return abs(self._change_in_metric())", "    def _absolute_change(self):\n        return abs(self._change_in_metric()) / (1.0 if self._change_in_metric() != 0 else 0.0)")),
    # ---- C17
    M("c17-metric-period-off", "C17", (ME, "        if epoch % self.period == 0:\n            metric_vals_for_epoch = {}", "        if (epoch + 1) % self.period == 0:\n            metric_vals_for_epoch = {}")),
    M("c17-evaluator-sees-stale-parameters", "C17", (ME, "                val = metric_fn(nn_state, **self.metric_kwargs)\n",
       "                _w = nn_state.rbm_am.weights.data.clone() if hasattr(nn_state.rbm_am, \"weights\") else None\n"
       "                _old = getattr(self, \"_w_prev\", None)\n"
       "                if _old is not None and _w is not None and _old.shape == _w.shape:\n                    nn_state.rbm_am.weights.data.copy_(_old)\n"
       "                val = metric_fn(nn_state, **self.metric_kwargs)\n"
       "                if _w is not None:\n                    nn_state.rbm_am.weights.data.copy_(_w)\n                self._w_prev = _w\n")),
    M("c17-last-not-updated", "C17", (ME, "            self.last = metric_vals_for_epoch.copy()\n", "            self.last = metric_vals_for_epoch.copy() if not self.last else self.last\n")),
    M("c17-epochs-indices", "C17", (ME, "        return np.array([epoch for epoch, _ in self.past_values])", "        return np.array([i + 1 for i, _ in enumerate(self.past_values)])")),
    M("c17-get-value-ignores-index", "C17", (OE, "        index = index if index is not None else -1\n        return self.past_values[index][-1][name]", "        index = -1\n        return self.past_values[index][-1][name]")),
    M("c17-saver-on-epoch-start", "C17", (MS, "    def on_epoch_end(self, nn_state, epoch):", "    def on_epoch_start(self, nn_state, epoch):")),
    M("c17-csv-previous-values", "C17", (ME, "            self.last = metric_vals_for_epoch.copy()\n            self.past_values.append((epoch, metric_vals_for_epoch))\n", "            prev_ = dict(self.last) if self.last else metric_vals_for_epoch.copy()\n            self.last = metric_vals_for_epoch.copy()\n            self.past_values.append((epoch, metric_vals_for_epoch))\n"),
                                      (ME, "                    writer.writerow(dict(epoch=epoch, **self.last))", "                    writer.writerow(dict(epoch=epoch, **prev_))")),
    M("c17-logger-period-plus", "C17", ("qucumber/callbacks/logger.py", "        if epoch % self.period == 0:", "        if epoch % self.period == 0 or epoch == 1:")),
    M("c17-saver-filename-prev-epoch", "C17", (MS, "            save_path = os.path.join(self.path, self.file_name.format(epoch))", "            save_path = os.path.join(self.path, self.file_name.format(epoch if epoch < 4 else epoch - 1))")),
    M("c17-obs-stat-plural", "C17", (OE, '            stat = statistic[:-1] if statistic.endswith("s") else statistic', '            stat = statistic[:-1] if statistic.endswith("es") else statistic')),
    M("c17-clear-keeps-last", "C17", (OE, "        self.past_values = []\n        self.last = {}", "        self.past_values = []")),
    M("c17-metric-kwargs-dropped-name-swap", "C17", (ME, "            return np.array([values[metric] for _, values in self.past_values])", "            return np.array([values[metric] for _, values in self.past_values[::-1]])")),
    M("c17-saver-initial-epoch", "C17", (MS, "            self._save(nn_state, 0, save_path)", "            self._save(nn_state, 1, save_path)")),
    M("c17-obs-csv-stale", "C17", (OE, "                for obs_name, obs_stats in self.last.items():\n                    for stat_name, stat in obs_stats.items():\n                        row[obs_name + \"_\" + stat_name] = stat", "                for obs_name, obs_stats in self.past_values[0][1].items():\n                    for stat_name, stat in obs_stats.items():\n                        row[obs_name + \"_\" + stat_name] = stat")),
    M("c17-saver-metadata-only-saves-state", "C17", (MS, "            torch.save(metadata, save_path)", "            torch.save(dict(metadata, extra=1), save_path)")),
    # ---- C14
    M("c14-numpy-permutation", "C14", (NS, "        pos_batch_perm = torch.randperm(train_samples.shape[0])", "        pos_batch_perm = torch.from_numpy(np.random.permutation(train_samples.shape[0]))")),
    M("c14-random-jitter-init", "C14", (BR, "                / np.sqrt(self.num_visible)\n            ),", "                / np.sqrt(self.num_visible) * (1.0 + 1e-9 * __import__('random').random())\n            ),")),
    M("c14-seed-ignores-cpu", "C14", ("qucumber/__init__.py", "    if cpu:\n        torch.manual_seed(seed)", "    if cpu and gpu:\n        torch.manual_seed(seed)")),
    M("c14-probability-normalises-in-place", "C14", (NS, "        return (-self.rbm_am.effective_energy(v)).exp() / Z", "        self.rbm_am.visible_bias.data.sub_(self.rbm_am.visible_bias.data.mean() * 1e-12)\n        return (-self.rbm_am.effective_energy(v)).exp() / Z")),
    M("c14-hash-order-dependence", "C14", (OB, "        variance, mean = torch.var_mean(obs_samples)", "        variance, mean = torch.var_mean(obs_samples + 1e-13 * (hash('qucumber') % 7))")),
    M("c14-sample-start-numpy", "C14", (NS, "            initial_state = dist.sample(sample_size).to(\n                device=self.device, dtype=torch.double\n            )", "            initial_state = torch.from_numpy((np.random.rand(*sample_size) < 0.5).astype(float)).to(\n                device=self.device, dtype=torch.double\n            )")),
    M("c14-gradient-caches-in-param", "C14", (CW, "        inv_Upsi = cplx.inverse(Upsi)", "        inv_Upsi = cplx.inverse(Upsi)\n        self.rbm_ph.hidden_bias.data.add_(0.0 * inv_Upsi.sum() + 1e-15)")),
    M("c14-seed-truncated", "C14", ("qucumber/__init__.py", "        torch.manual_seed(seed)", "        torch.manual_seed(seed % 2)")),
]

BENIGN = [
    M("benign-no-zero-grad", ["C06", "C12", "C20"], (NS, "                optimizer.zero_grad()  # clear any cached gradients\n", "")),
    M("benign-exact-softplus", ["C01", "C02", "C03", "C05", "C06", "C08", "C09", "C10"],
      (BR, "hid_bias_term = F.softplus(F.linear(v, self.weights, self.hidden_bias)).sum(-1)",
       "x_ = F.linear(v, self.weights, self.hidden_bias)\n        hid_bias_term = torch.logaddexp(x_, torch.zeros_like(x_)).sum(-1)"),
      (PR, "        vis_term = torch.matmul(v, self.visible_bias) + F.softplus(\n            F.linear(v, self.weights_W, self.hidden_bias)\n        ).sum(-1)",
       "        xw_ = F.linear(v, self.weights_W, self.hidden_bias)\n        vis_term = torch.matmul(v, self.visible_bias) + torch.logaddexp(xw_, torch.zeros_like(xw_)).sum(-1)"),
      (PR, "            aux_term = F.softplus(F.linear(v, self.weights_U, self.aux_bias)).sum(-1)\n\n            return -(vis_term + aux_term)",
       "            xu_ = F.linear(v, self.weights_U, self.aux_bias)\n            aux_term = torch.logaddexp(xu_, torch.zeros_like(xu_)).sum(-1)\n\n            return -(vis_term + aux_term)")),
    M("benign-dense-kron", ["C04", "C10", "C03", "C19"],
      (UN, """    y = x.clone()
    for s in reversed(range(len(n))):
        l //= n[s]  # noqa: E741
        m = matrices[s]

        for k in range(l):
            for i in range(r):
                slc = slice(k * n[s] * r + i, (k + 1) * n[s] * r + i, r)
                temp = y[:, slc, ...]
                y[:, slc, ...] = cplx.matmul(m, temp)
        r *= n[s]

    return y
""", """    U = matrices[0]
    for m_ in matrices[1:]:
        U = cplx.kronecker_prod(U, m_)
    return cplx.matmul(U, x)
""")),
    M("benign-aux-before-hidden", ["C05", "C06", "C13", "C14"],
      (PR, "            self.sample_h_given_v(v, out=h)\n            self.sample_a_given_v(v, out=a)\n            self.sample_v_given_ha(h, a, out=v)",
       "            self.sample_a_given_v(v, out=a)\n            self.sample_h_given_v(v, out=h)\n            self.sample_v_given_ha(h, a, out=v)")),
    M("benign-roll-minus-one", ["C09", "C16", "C13"], (EN, "samples2 = torch.roll(samples1, 1, 0)", "samples2 = torch.roll(samples1, -1, 0)")),
    M("benign-merge-reassociated", ["C13", "C17"],
      (OU, "    new_var = scaled_var_a + scaled_var_b\n    new_var += (delta ** 2) * len_a * len_b / float(new_len)",
       "    new_var = (delta ** 2) * (len_a * len_b / float(new_len)) + scaled_var_b + scaled_var_a")),
    M("benign-fidelity-sqrtm", ["C10"],
      (TS, "        eigvals = np.linalg.eigvals(prod).real  # imaginary parts should be zero\n        eigvals = np.abs(eigvals) # 0 eigenvals sometimes end up slightly negative\n        trace = np.sum(np.sqrt(eigvals))",
       "        sq_ = sqrtm(rho_rbm_)\n        inner_ = sq_ @ target_ @ sq_\n        ev_ = np.linalg.eigvalsh((inner_ + inner_.conj().T) / 2)\n        trace = np.sum(np.sqrt(np.abs(ev_)))")),
    M("benign-hilbert-itertools", ["C19", "C01", "C04"],
      (NS, "            dim = np.arange(2 ** size)\n            space = ((dim[:, None] & (1 << np.arange(size))) > 0)[:, ::-1]\n            space = space.astype(int)",
       "            import itertools as _it\n            space = np.array(list(_it.product([0, 1], repeat=size)), dtype=int).reshape(2 ** size, size)")),
    M("benign-neg-always-randint", ["C07", "C06", "C12"],
      (NS, """            if neg_batch_size == pos_batch_size:
                neg_batch_perm = pos_batch_perm
            else:
                neg_batch_perm = torch.randint(
                    train_samples.shape[0],
                    size=(num_batches * neg_batch_size,),
                    dtype=torch.long,
                )
""", """            neg_batch_perm = torch.randint(
                train_samples.shape[0],
                size=(num_batches * neg_batch_size,),
                dtype=torch.long,
            )
""")),
    M("benign-regulariser-removed", ["C03", "C06"], (DM, "inv_UrhoU = 1 / (UrhoU + 1e-8)  # avoid dividing by zero", "inv_UrhoU = 1 / UrhoU")),
    M("benign-save-deepcopy-metadata", ["C11", "C17"], (NS, "        metadata = dict(metadata) if metadata else {}", "        import copy as _cp\n        metadata = _cp.deepcopy(metadata) if metadata else {}")),
    M("benign-sum-other-order", ["C16", "C13"],
      (OB, "        if isinstance(self.left, ObservableBase):\n            result = result + self.left.apply(nn_state, samples)\n        if isinstance(self.right, ObservableBase):\n            result = result + self.right.apply(nn_state, samples)",
       "        if isinstance(self.right, ObservableBase):\n            result = self.right.apply(nn_state, samples) + result\n        if isinstance(self.left, ObservableBase):\n            result = self.left.apply(nn_state, samples) + result")),
    M("benign-random-start-randint", ["C05", "C13", "C14"],
      (NS, "            dist = torch.distributions.Bernoulli(probs=0.5)\n            sample_size = torch.Size((num_samples, self.num_visible))\n            initial_state = dist.sample(sample_size).to(\n                device=self.device, dtype=torch.double\n            )",
       "            initial_state = torch.randint(0, 2, (num_samples, self.num_visible)).to(\n                device=self.device, dtype=torch.double\n            )")),
    M("benign-conditional-out-of-place", ["C05", "C03", "C06"],
      (BR, "        return (\n            torch.matmul(v, self.weights.data.t(), out=out)\n            .add_(self.hidden_bias.data)\n            .sigmoid_()\n            .clamp_(min=0, max=1)\n        )",
       "        res_ = torch.sigmoid(F.linear(v, self.weights.data, self.hidden_bias.data))\n        if out is not None:\n            if out.shape != res_.shape:\n                out.resize_(res_.shape)  # what matmul(out=) does for a 1-D work buffer\n            out.copy_(res_)\n            return out\n        return res_")),
    M("benign-modelsaver-copies-dict", ["C17", "C11"], (MS, "            metadata = self.metadata\n", "            metadata = dict(self.metadata)\n")),
    M("benign-callbacklist-iter-copy", ["C12", "C17", "C18"],
      ("qucumber/callbacks/callback_list.py", "    def on_batch_end(self, rbm, epoch, batch):\n        for cb in self.callbacks:", "    def on_batch_end(self, rbm, epoch, batch):\n        for cb in list(self.callbacks):")),
    M("benign-energy-gradient-einsum", ["C03", "C06"],
      (BR, "            W_grad = -torch.matmul(prob.transpose(0, -1), v)", "            W_grad = -torch.einsum(\"bj,bk->jk\", prob, v)")),
    M("benign-cplx-matmul-native", ["C15", "C04"],
      (CX, "    re = torch.matmul(real(x), real(y)).sub_(torch.matmul(imag(x), imag(y)))\n    im = torch.matmul(real(x), imag(y)).add_(torch.matmul(imag(x), real(y)))\n\n    return make_complex(re, im)",
       "    z_ = torch.matmul(torch.complex(real(x), imag(x)), torch.complex(real(y), imag(y)))\n    return make_complex(z_.real, z_.imag)")),
    M("benign-early-stopping-numpy-abs", ["C18"], (ES, "        return abs(self._change_in_metric())\n", "        return float(np.abs(self._change_in_metric()))\n")),
    M("benign-kl-loop-mean", ["C10"], (TS, "        KL /= float(len(bases))\n    else:", "        KL = KL / len(bases)\n    else:")),
]
