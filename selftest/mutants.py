"""Calibration mutants: (id, props that must catch it, [(file, old, new)]).
All are semantic breaks that keep the code importable."""


def M(id, props, *edits):
    return {"id": id, "props": props if isinstance(props, list) else [props], "edits": list(edits)}


BR = "qucumber/rbm/binary_rbm.py"
PR = "qucumber/rbm/purification_rbm.py"
NS = "qucumber/nn_states/neural_state.py"
WF = "qucumber/nn_states/wavefunction.py"
PW = "qucumber/nn_states/positive_wavefunction.py"
CW = "qucumber/nn_states/complex_wavefunction.py"
DM = "qucumber/nn_states/density_matrix.py"
UN = "qucumber/utils/unitaries.py"
CX = "qucumber/utils/cplx.py"

MUTANTS = [
    # ---- C01
    M("c01-drop-visible-bias", "C01", (BR, "return -(visible_bias_term + hid_bias_term)", "return -(hid_bias_term)")),
    M("c01-no-sqrt", "C01", (WF, "return (-self.rbm_am.effective_energy(v)).exp().sqrt()",
                             "return (-self.rbm_am.effective_energy(v)).exp()")),
    M("c01-phase-sign", "C01", (CW, "return -0.5 * self.rbm_ph.effective_energy(v)",
                                "return 0.5 * self.rbm_ph.effective_energy(v)")),
    M("c01-partition-truncated", "C01", (BR, "logZ = (-self.effective_energy(space)).logsumexp(0)",
                                         "logZ = (-self.effective_energy(space[1:])).logsumexp(0) if len(space) > 4 else (-self.effective_energy(space)).logsumexp(0)")),
    M("c01-positive-psi-sign", "C01", (PW, "return cplx.make_complex(self.amplitude(v))",
                                       "return cplx.make_complex(-self.amplitude(v))")),
    M("c01-hidden-bias-transposed-use", "C01", (BR, "hid_bias_term = F.softplus(F.linear(v, self.weights, self.hidden_bias)).sum(-1)",
                                                "hid_bias_term = F.softplus(F.linear(v, self.weights, self.hidden_bias.abs())).sum(-1)")),
    # ---- C02
    M("c02-aux-bias-half", "C02", (DM, "m_am = F.linear(v, self.rbm_am.weights_U, self.rbm_am.aux_bias)",
                                   "m_am = F.linear(v, self.rbm_am.weights_U, self.rbm_am.aux_bias / 2)")),
    M("c02-pi-phase-sign", "C02", (DM, "phase = (m_ph - mp_ph) / 2", "phase = (m_ph + mp_ph) / 2")),
    M("c02-eta-swapped", "C02", (DM, "phase = self.rbm_ph.gamma(v, vp, eta=-1, expand=expand) + cplx.imag(pi_)",
                                 "phase = self.rbm_ph.gamma(v, vp, eta=+1, expand=expand) + cplx.imag(pi_)")),
    M("c02-paired-minus", "C02", (PR, "temp = temp1 + (sign * temp2)", "temp = temp1 - (sign * temp2)")),
    M("c02-scalar-branch-drop-sign", "C02", (PR, "temp = torch.dot(v + sign * vp, self.visible_bias)",
                                             "temp = torch.dot(v + vp, self.visible_bias)")),
]

BENIGN = []
