"""Calibration mutants: (id, props that must catch it, [(file, old, new)]).
All are semantic breaks that keep the code importable."""


def M(id, props, *edits):
    return {"id": id, "props": props if isinstance(props, list) else [props], "edits": list(edits)}


BR = "qucumber/rbm/binary_rbm.py"
PR = "qucumber/rbm/purification_rbm.py"
NS = "qucumber/nn_states/neural_state.py"
WF = "qucumber/nn_states/wavefunction.py"
PW = "qucumber/nn_states/positive_wavefunction.py"
CW = "qucumber/nn_states/complex_wavefunction.py"
DM = "qucumber/nn_states/density_matrix.py"
PA = "qucumber/observables/pauli.py"
EN = "qucumber/observables/entanglement.py"
TS = "qucumber/utils/training_statistics.py"
OB = "qucumber/observables/observable.py"
SY = "qucumber/observables/system.py"
OU = "qucumber/observables/utils.py"
DA = "qucumber/utils/data.py"
UN = "qucumber/utils/unitaries.py"
CX = "qucumber/utils/cplx.py"

MUTANTS = [
    # ---- C01
    M("c01-drop-visible-bias", "C01", (BR, "return -(visible_bias_term + hid_bias_term)", "return -(hid_bias_term)")),
    M("c01-no-sqrt", "C01", (WF, "return (-self.rbm_am.effective_energy(v)).exp().sqrt()",
                             "return (-self.rbm_am.effective_energy(v)).exp()")),
    M("c01-phase-sign", "C01", (CW, "return -0.5 * self.rbm_ph.effective_energy(v)",
                                "return 0.5 * self.rbm_ph.effective_energy(v)")),
    M("c01-partition-truncated", "C01", (BR, "logZ = (-self.effective_energy(space)).logsumexp(0)",
                                         "logZ = (-self.effective_energy(space[1:])).logsumexp(0) if len(space) > 4 else (-self.effective_energy(space)).logsumexp(0)")),
    M("c01-positive-psi-sign", "C01", (PW, "return cplx.make_complex(self.amplitude(v))",
                                       "return cplx.make_complex(-self.amplitude(v))")),
    M("c01-hidden-bias-transposed-use", "C01", (BR, "hid_bias_term = F.softplus(F.linear(v, self.weights, self.hidden_bias)).sum(-1)",
                                                "hid_bias_term = F.softplus(F.linear(v, self.weights, self.hidden_bias.abs())).sum(-1)")),
    # ---- C02
    M("c02-aux-bias-half", "C02", (DM, "m_am = F.linear(v, self.rbm_am.weights_U, self.rbm_am.aux_bias)",
                                   "m_am = F.linear(v, self.rbm_am.weights_U, self.rbm_am.aux_bias / 2)")),
    M("c02-pi-phase-sign", "C02", (DM, "phase = (m_ph - mp_ph) / 2", "phase = (m_ph + mp_ph) / 2")),
    M("c02-eta-swapped", "C02", (DM, "phase = self.rbm_ph.gamma(v, vp, eta=-1, expand=expand) + cplx.imag(pi_)",
                                 "phase = self.rbm_ph.gamma(v, vp, eta=+1, expand=expand) + cplx.imag(pi_)")),
    M("c02-paired-minus", "C02", (PR, "temp = temp1 + (sign * temp2)", "temp = temp1 - (sign * temp2)")),
    M("c02-scalar-branch-drop-sign", "C02", (PR, "temp = torch.dot(v + sign * vp, self.visible_bias)",
                                             "temp = torch.dot(v + vp, self.visible_bias)")),
    # ---- C15
    M("c15-matmul-imag-sign", "C15", (CX, "im = torch.matmul(real(x), imag(y)).add_(torch.matmul(imag(x), real(y)))",
                                      "im = torch.matmul(real(x), imag(y)).sub_(torch.matmul(imag(x), real(y)))")),
    M("c15-einsum-real-sign", "C15", (CX, "r = torch.einsum(equation, real(a), real(b)).sub_(", "r = torch.einsum(equation, real(a), real(b)).add_(")),
    M("c15-inner-conj-right", "C15", (CX, "torch.dot(real(x), imag(y)) - torch.dot(imag(x), real(y)),",
                                      "torch.dot(imag(x), real(y)) - torch.dot(real(x), imag(y)),")),
    M("c15-kron-reshape-order", "C15", (CX, 'return einsum("ab,cd->acbd", x, y).reshape(', 'return einsum("ab,cd->abcd", x, y).reshape(')),
    M("c15-conjugate-axes", "C15", (CX, "torch.transpose(real(x), 0, 1), -torch.transpose(imag(x), 0, 1)",
                                    "torch.transpose(real(x), -2, -1), -torch.transpose(imag(x), -2, -1)")),
    M("c15-inverse-no-conj", "C15", (CX, "    return z_star / denominator", "    return z / denominator")),
    M("c15-alias-guard-removed", "C15", (CX, "        if out is x or out is y:", "        if False:")),
    M("c15-outer-no-conj", "C15", (CX, "z[1] = torch.ger(real(x), -imag(y)) + torch.ger(imag(x), real(y))",
                                   "z[1] = torch.ger(real(x), imag(y)) + torch.ger(imag(x), real(y))")),
    M("c15-sigmoid-real-only", "C15", (CX, "out = np.exp(z) / (1 + np.exp(z))", "out = np.exp(z) / (1 + np.exp(z.real))")),
    M("c15-absval-no-sqrt-small", "C15", (CX, "return real(elementwise_mult(x, x_star)).sqrt_()",
                                          "return real(elementwise_mult(x, x_star)).sqrt_().clamp_(min=1e-30)")),
    # ---- C04
    M("c04-kron-site-order", "C04", (UN, "    for s in reversed(range(len(n))):\n        l //= n[s]  # noqa: E741\n        m = matrices[s]",
                                     "    for s in reversed(range(len(n))):\n        l //= n[s]  # noqa: E741\n        m = matrices[len(n) - 1 - s]")),
    M("c04-Y-rows-swapped", "C04", (UN, "[[[1.0, 0.0], [1.0, 0.0]], [[0.0, -1.0], [0.0, 1.0]]]", "[[[1.0, 0.0], [1.0, 0.0]], [[0.0, 1.0], [0.0, -1.0]]]")),
    M("c04-rotate-rho-no-conj", "C04", (UN, "rho_r = _kron_mult(us, cplx.conjugate(rho_r))", "rho_r = _kron_mult(us, torch.transpose(rho_r, 1, 2))")),
    M("c04-little-endian-index", "C04", (UN, "powers = (2 ** (torch.arange(states.shape[-1], 0, -1) - 1)).to(states)",
                                         "powers = (2 ** torch.arange(states.shape[-1])).to(states)")),
    M("c04-f1-transpose-regression", "C04", (UN, "rho = rho[:, idx.unsqueeze(1), idx.unsqueeze(0)]", "rho = rho[:, idx.unsqueeze(0), idx.unsqueeze(1)]")),
    M("c04-Ut-no-conj", "C04", (UN, 'Ut = np.einsum("ib,jb->ijb", Ut, np.conj(Ut))', 'Ut = np.einsum("ib,jb->ijb", Ut, Ut)')),
    M("c04-rotate-basis-transposed-U", "C04", (UN, "all_Us = Us[ints_size, :, int_sample, int_vp]", "all_Us = Us[ints_size, :, int_vp, int_sample]")),
    M("c04-X-not-normalised", "C04", (UN, "[[[1.0, 1.0], [1.0, -1.0]], [[0.0, 0.0], [0.0, 0.0]]], dtype=torch.double\n        )\n        / np.sqrt(2)",
                                      "[[[1.0, 1.0], [1.0, -1.0]], [[0.0, 0.0], [0.0, 0.0]]], dtype=torch.double\n        )\n        / 1.4142")),
    # ---- C03
    M("c03-swap-vb-hb-layout", "C03", (BR, "return parameters_to_vector([W_grad, vb_grad, hb_grad])",
                                       "return parameters_to_vector([W_grad, hb_grad, vb_grad]) if vb_grad.numel() == hb_grad.numel() else parameters_to_vector([W_grad, vb_grad, hb_grad])")),
    M("c03-rotated-grad-sign", "C03", (DM, '-cplx.einsum("ijb,ijbg->bg", UrhoU_v, g, imag_part=False) for g in raw_grads',
                                       'cplx.einsum("ijb,ijbg->bg", UrhoU_v, g, imag_part=False) for g in raw_grads')),
    M("c03-drop-I-ph-grads", "C03", (CW, "            cplx.I,  # need to multiply phase gradient by i\n", "            cplx.make_complex(torch.ones(1)).squeeze(-1).to(torch.double),\n")),
    M("c03-wrong-mask", "C03", (NS, "sample_grad = self.rotated_gradient(basis, samples[indices == i, :])",
                                "sample_grad = self.rotated_gradient(basis, samples[indices == (i + 1) % unique_bases.shape[0], :])")),
    M("c03-positive-phase-const", "C03", (NS, "grad = [gr / float(samples_batch.shape[0]) for gr in grad]",
                                          "grad = [gr / float(max(samples_batch.shape[0], 2)) for gr in grad]")),
    M("c03-drop-pi-grad", "C03", (DM, "return self.rbm_am.gamma_grad(v, v, eta=+1, expand=True) + self.pi_grad(\n            v, v, phase=False, expand=True\n        )",
                                  "return self.rbm_am.gamma_grad(v, v, eta=+1, expand=True)")),
    M("c03-f5-regression", "C03", (PW, "return super().compute_exact_gradients(samples_batch, space, bases_batch=None)",
                                   "return super().compute_exact_grads(samples_batch, space, bases_batch=None)")),
    M("c03-ab-grad-pur-sign", "C03", (PR, "ab_grad = -torch.sum(pa, 0)", "ab_grad = torch.sum(pa, 0)")),
    M("c03-exact-neg-phase-unnormalised", "C03", (NS, "        probs /= Z\n", "        probs /= (Z if len(space) > 2 else 1.0)\n")),
    M("c03-pi-grad-phase-U-sign", "C03", (DM, "temp = (v.unsqueeze(1) - vp.unsqueeze(0)) if expand else (v - vp)",
                                          "temp = (vp.unsqueeze(0) - v.unsqueeze(1)) if expand else (v - vp)")),
    M("c03-1d-basis-dropped", "C03", (NS, "                bases = np.array(list(bases)).reshape(1, -1)",
                                      "                bases = np.array(list(bases)).reshape(1, -1)\n                bases[bases == 'Y'] = 'X'")),
    # ---- C05
    M("c05-drop-visible-bias-cond", "C05", (BR, "            torch.matmul(h, self.weights.data, out=out)\n            .add_(self.visible_bias.data)",
                                            "            torch.matmul(h, self.weights.data, out=out)")),
    M("c05-range-k-minus-1", "C05", (BR, "        for _ in range(k):\n            self.sample_h_given_v(v, out=h)", "        for _ in range(max(k - 1, min(k, 1))):\n            self.sample_h_given_v(v, out=h)")),
    M("c05-a-conditioned-on-new-v", "C05", (PR, "            self.sample_h_given_v(v, out=h)\n            self.sample_a_given_v(v, out=a)\n            self.sample_v_given_ha(h, a, out=v)",
                                            "            self.sample_h_given_v(v, out=h)\n            self.sample_v_given_ha(h, a, out=v)\n            self.sample_a_given_v(v, out=a)")),
    M("c05-overwrite-inverted", "C05", (BR, "v = (initial_state if overwrite else initial_state.clone()).to(self.weights)",
                                        "v = (initial_state.clone() if overwrite else initial_state).to(self.weights)")),
    M("c05-pur-no-U-term", "C05", (PR, "            .add_(torch.matmul(a, self.weights_U.data))\n", "")),
    M("c05-sample-thresholds-instead-of-draws", "C05", (BR, "        v = torch.bernoulli(v, out=out)  # overwrite v with its sample", "        v = torch.bernoulli(v.mul_(0.98).add_(0.01), out=out)  # overwrite v with its sample")),
    M("c05-pur-hidden-uses-U", "C05", (PR, "            torch.matmul(v, self.weights_W.data.t(), out=out)\n            .add_(self.hidden_bias.data)",
                                       "            torch.matmul(v, self.weights_W.data.t(), out=out)\n            .add_(self.hidden_bias.data.abs())")),
    M("c05-probability-temperature", "C05", (NS, "return (-self.rbm_am.effective_energy(v)).exp() / Z", "return (-1.02 * self.rbm_am.effective_energy(v)).exp() / Z")),
    # ---- C06
    M("c06-divide-by-pos-size", "C06", (NS, "grad[0] -= grad_model / float(neg_batch.shape[0])", "grad[0] -= grad_model / float(samples_batch.shape[0])")),
    M("c06-neg-phase-added", "C06", (NS, "grad[0] -= grad_model / float(neg_batch.shape[0])", "grad[0] += grad_model / float(neg_batch.shape[0])")),
    M("c06-neg-phase-on-phase-net", "C06", (NS, "        # No negative signal for the phase parameters\n        return grad",
                                            "        if len(grad) > 1 and grad[1].shape == grad_model.shape:\n            grad[1] -= grad_model / float(neg_batch.shape[0])\n        return grad")),
    M("c06-pointer-not-advanced", "C06", ("qucumber/utils/gradients_utils.py", "        pointer += num_param", "        pointer += num_param if num_param > 1 else 0")),
    M("c06-networks-swapped", "C06", (NS, "vector_to_grads(all_grads[i], rbm.parameters())", "vector_to_grads(all_grads[len(self.networks) - 1 - i], rbm.parameters())")),
    M("c06-scheduler-in-batch-loop", "C06", (NS, "                callbacks.on_batch_end(self, ep, b)\n                if self.stop_training:",
                                             "                if scheduler is not None and b == 0 and num_batches > 1:\n                    scheduler.step()\n                callbacks.on_batch_end(self, ep, b)\n                if self.stop_training:")),
    M("c06-step-twice", "C06", (NS, "                optimizer.step()  # tell the optimizer to apply the gradients",
                                "                optimizer.step()  # tell the optimizer to apply the gradients\n                if b == 1:\n                    optimizer.step()")),
    M("c06-k-plus-one-when-neg-differs", "C06", (NS, "        vk = self.rbm_am.gibbs_steps(k, neg_batch)", "        vk = self.rbm_am.gibbs_steps(k + (neg_batch.shape[0] != samples_batch.shape[0]), neg_batch)")),
    M("c06-vk-replaced-by-start", "C06", (NS, "        grad_model = self.rbm_am.effective_energy_gradient(vk)", "        grad_model = self.rbm_am.effective_energy_gradient(neg_batch if k == 1 else vk)")),
    # ---- C07
    M("c07-second-randperm-for-bases", "C07", (NS, "shuffled_pos_bases = input_bases[pos_batch_perm.numpy()]", "shuffled_pos_bases = input_bases[torch.randperm(train_samples.shape[0]).numpy()]")),
    M("c07-tail-dropped", "C07", (NS, "for batch_start in range(0, len(shuffled_pos_samples), pos_batch_size)\n        ]",
                                  "for batch_start in range(0, max(1, len(shuffled_pos_samples) - pos_batch_size + 1), pos_batch_size)\n        ]")),
    M("c07-neg-from-all-rows", "C07", (NS, "            shuffled_neg_samples = z_samples[neg_batch_perm]", "            shuffled_neg_samples = train_samples[neg_batch_perm % train_samples.shape[0]]")),
    M("c07-data-aliased-and-mutated", "C07", (NS, "                data.clone().detach().to(device=self.device, dtype=torch.double)\n            )",
                                              "                data.detach().to(device=self.device, dtype=torch.double)\n            )\n            train_samples.clamp_(0.0, 0.999)")),
    M("c07-refbasis-any", "C07", ("qucumber/utils/data.py", "        .all(dim=1)", "        .any(dim=1)")),
    M("c07-f10-regression", "C07", (NS, "shuffled_pos_bases = input_bases[pos_batch_perm.numpy()]", "shuffled_pos_bases = input_bases[pos_batch_perm]")),
    M("c07-numbatches-floor", "C07", (NS, "num_batches = ceil(train_samples.shape[0] / pos_batch_size)", "num_batches = max(1, train_samples.shape[0] // pos_batch_size)")),
    M("c07-perm-with-replacement", "C07", (NS, "pos_batch_perm = torch.randperm(train_samples.shape[0])", "pos_batch_perm = torch.randint(train_samples.shape[0], (train_samples.shape[0],))")),
    M("c07-neg-size-pos", "C07", (NS, "            neg_batch_perm = torch.randint(\n                z_samples.shape[0],\n                size=(num_batches * neg_batch_size,),",
                                  "            neg_batch_perm = torch.randint(\n                z_samples.shape[0],\n                size=(num_batches * pos_batch_size,),")),
    # ---- C12
    M("c12-break-before-batch-end", "C12", (NS, "                callbacks.on_batch_end(self, ep, b)\n                if self.stop_training:  # check for stop_training signal\n                    break",
                                            "                if self.stop_training:  # check for stop_training signal\n                    break\n                callbacks.on_batch_end(self, ep, b)")),
    M("c12-epoch-end-skipped-on-stop", "C12", (NS, "            callbacks.on_epoch_end(self, ep)\n            if self.stop_training:  # check for stop_training signal\n                break",
                                               "            if self.stop_training:  # check for stop_training signal\n                break\n            callbacks.on_epoch_end(self, ep)")),
    M("c12-range-excludes-last", "C12", (NS, "range(starting_epoch, epochs + 1), desc=", "range(starting_epoch, max(epochs, starting_epoch + 1) if epochs >= starting_epoch else epochs + 1), desc=")),
    M("c12-train-end-only-if-not-stopped", "C12", (NS, "        callbacks.on_train_end(self)", "        if not (self.stop_training and ep == starting_epoch and num_batches > 1):\n            callbacks.on_train_end(self)")),
    M("c12-reverse-dispatch-one-event", "C12", ("qucumber/callbacks/callback_list.py", "    def on_epoch_end(self, rbm, epoch):\n        for cb in self.callbacks:", "    def on_epoch_end(self, rbm, epoch):\n        for cb in reversed(self.callbacks):")),
    M("c12-step-after-batch-end", "C12", (NS, "                optimizer.step()  # tell the optimizer to apply the gradients\n\n                callbacks.on_batch_end(self, ep, b)",
                                          "                callbacks.on_batch_end(self, ep, b)\n                optimizer.step()  # tell the optimizer to apply the gradients\n")),
    M("c12-stop-reset-at-end", "C12", (NS, "        callbacks.on_train_end(self)", "        callbacks.on_train_end(self)\n        self._stop_training = False")),
    M("c12-no-early-return", "C12", (NS, "        if self.stop_training:  # terminate immediately if stop_training is true\n            return", "        if self.stop_training and epochs < 0:  # terminate immediately if stop_training is true\n            return")),
    M("c12-inner-break-only", "C12", (NS, "            callbacks.on_epoch_end(self, ep)\n            if self.stop_training:  # check for stop_training signal\n                break", "            callbacks.on_epoch_end(self, ep)")),
    M("c12-timer-swallows-stop", "C12", ("qucumber/callbacks/timer.py", "    def on_epoch_end(self, nn_state, epoch):\n        if nn_state.stop_training:", "    def on_epoch_end(self, nn_state, epoch):\n        if nn_state.stop_training and epoch > 1:\n            nn_state._stop_training = False\n        if nn_state.stop_training:")),
    # ---- C08
    M("c08-sigmay-sign", "C08", ("qucumber/observables/pauli.py", "coeff = cplx.make_complex(torch.zeros_like(coeff), coeff)", "coeff = cplx.make_complex(torch.zeros_like(coeff), -coeff)")),
    M("c08-missing-div-n", "C08", (PA, "        res = cplx.real(numer_sum).div_(samples.shape[-1])\n        if self.absolute:\n            return res.abs_()\n        else:\n            return res\n\n\nclass SigmaY",
                                   "        res = cplx.real(numer_sum)\n        if self.absolute:\n            return res.abs_()\n        else:\n            return res\n\n\nclass SigmaY")),
    M("c08-flip-in-place", "C08", (PA, "            samples_ = flip_spin(i, samples.clone())  # flip the spin at site i\n\n            # compute the numerator of the importance and add it to the running sum\n            numer = nn_state.importance_sampling_numerator(samples_, samples)\n            numer_sum.add_(numer)",
                                   "            samples_ = flip_spin(i, samples)  # flip the spin at site i\n\n            # compute the numerator of the importance and add it to the running sum\n            numer = nn_state.importance_sampling_numerator(samples_, samples)\n            numer_sum.add_(numer)")),
    M("c08-mixed-weight-swapped", "C08", (DM, "        return self.rho(vp, v, expand=False)", "        return self.rho(v, vp, expand=False)")),
    M("c08-periodic-perm-off-by-one", "C08", ("qucumber/observables/interactions.py", "perm_indices = [(i + self.c) % L for i in range(L)]", "perm_indices = [(i + self.c + 1) % L for i in range(L)]")),
    M("c08-to-pm1-flipped", "C08", ("qucumber/observables/utils.py", "return samples.mul(2.0).sub(1.0)", "return samples.mul(-2.0).add(1.0)")),
    M("c08-open-bc-drops-last-pair", "C08", ("qucumber/observables/interactions.py", "interaction_terms = samples[:, : -self.c] * samples[:, self.c :]", "interaction_terms = samples[:, : -self.c - 1] * samples[:, self.c : -1] if L > self.c + 1 else samples[:, : -self.c] * samples[:, self.c :]")),
    M("c08-sigmaz-abs-before-mean", "C08", (PA, "        res = to_pm1(samples.mean(1))\n        if self.absolute:\n            return res.abs_()", "        res = to_pm1(samples.mean(1))\n        if self.absolute:\n            return to_pm1(samples).abs().mean(1)")),
    # ---- C09
    M("c09-swap-no-clone", "C09", ("qucumber/observables/entanglement.py", "samples1_, samples2_ = swap(samples1.clone(), samples2.clone(), self.A)", "samples1_, samples2_ = swap(samples1, samples2.clone(), self.A)")),
    M("c09-weight-conj", "C09", (EN, "weight = cplx.elementwise_mult(weight1, weight2)", "weight = cplx.elementwise_mult(weight1, cplx.conj(weight2))")),
    M("c09-A-on-rows", "C09", (EN, "    _s = s1[:, A].clone()\n    s1[:, A] = s2[:, A]\n    s2[:, A] = _s", "    if s1.shape[0] == s1.shape[1] and not isinstance(A, int):\n        _s = s1[A, :].clone()\n        s1[A, :] = s2[A, :]\n        s2[A, :] = _s\n        return s1, s2\n    _s = s1[:, A].clone()\n    s1[:, A] = s2[:, A]\n    s2[:, A] = _s")),
    M("c09-roll-zero", "C09", (EN, "samples2 = torch.roll(samples1, 1, 0)", "samples2 = torch.roll(samples1, 0, 0)")),
    M("c09-swap-only-one-replica", "C09", (EN, "    s2[:, A] = _s\n", "    pass\n")),
    M("c09-roll-two-large-batches", "C09", (EN, "samples2 = torch.roll(samples1, 1, 0)", "samples2 = torch.roll(samples1, 1 if samples1.shape[0] < 3 else 2, 0)")),
    # ---- C10
    M("c10-fidelity-not-squared", "C10", (TS, "return cplx.absolute_value(F).pow_(2).item()", "return cplx.absolute_value(F).item()")),
    M("c10-fidelity-missing-Z", "C10", (TS, "psi = nn_state.psi(space) / Z.sqrt()", "psi = nn_state.psi(space) / Z.sqrt().clamp(max=1.5)")),
    M("c10-kl-not-averaged", "C10", (TS, "            KL += _single_basis_KL(target_probs_r, nn_probs_r)\n\n        KL /= float(len(bases))\n    else:", "            KL += _single_basis_KL(target_probs_r, nn_probs_r)\n\n    else:")),
    M("c10-nll-sign", "C10", (TS, "NLL_ -= torch.sum(probs_to_logits(nn_probs))", "NLL_ += torch.sum(probs_to_logits(nn_probs))")),
    M("c10-kl-target-conj-dict", "C10", (TS, "target_psi_r = rotate_psi(nn_state, basis, space, psi=target)", "target_psi_r = rotate_psi(nn_state, basis, space, psi=cplx.conj(target))")),
    M("c10-f6-regression", "C10", (TS, "return (NLL_ / float(len(samples))).item()", "return NLL_ / float(len(samples))")),
    M("c10-f7-regression", "C10", (TS, "            target_probs = torch.diagonal(cplx.real(target))", "            target_probs = cplx.absolute_value(target) ** 2")),
    M("c10-f11-regression", "C10", (UN, "    unitaries = getattr(nn_state, \"unitary_dict\", None)\n", "    unitaries = nn_state.unitary_dict\n")),
    M("c10-mixed-fidelity-no-sqrt", "C10", (TS, "trace = np.sum(np.sqrt(eigvals))", "trace = np.sqrt(np.sum(eigvals))")),
    M("c10-nll-mixed-missing-Z", "C10", (TS, "rotate_rho_probs(nn_state, basis, samples[indices == i, :]) / Z", "rotate_rho_probs(nn_state, basis, samples[indices == i, :])")),
    M("c10-kl-dict-mixed-abs", "C10", (TS, "target_probs_r = torch.diagonal(cplx.real(target_rho_r))", "target_probs_r = torch.diagonal(cplx.real(target_rho_r)).roll(1)")),
    M("c10-nll-divides-by-unique-bases", "C10", (TS, "return (NLL_ / float(len(samples))).item()", "return (NLL_ / float(len(samples) if unique_bases.shape[0] < 3 else len(samples) - 1)).item()")),
    # ---- C13
    M("c13-floor-draws", "C13", (OB, "        num_time_steps = int(np.ceil(num_samples / num_chains))\n        for i in range(num_time_steps):\n            num_gibbs_steps = burn_in if i == 0 else steps\n\n            chains = nn_state.sample(\n                num_samples=num_chains,\n                k=num_gibbs_steps,\n                initial_state=chains,\n                overwrite=True,\n            )\n\n            sample_stats",
                                 "        num_time_steps = max(1, int(np.floor(num_samples / num_chains)))\n        for i in range(num_time_steps):\n            num_gibbs_steps = burn_in if i == 0 else steps\n\n            chains = nn_state.sample(\n                num_samples=num_chains,\n                k=num_gibbs_steps,\n                initial_state=chains,\n                overwrite=True,\n            )\n\n            sample_stats")),
    M("c13-burn-in-every-draw", "C13", (SY, "num_gibbs_steps = burn_in if i == 0 else steps", "num_gibbs_steps = burn_in")),
    M("c13-restart-every-draw", "C13", (OB, "                initial_state=chains,\n                overwrite=True,\n            )\n\n            sample_stats", "                initial_state=chains if i < 2 else None,\n                overwrite=True,\n            )\n\n            sample_stats")),
    M("c13-biased-variance", "C13", (OB, "variance, mean = torch.var_mean(obs_samples)", "variance, mean = torch.var_mean(obs_samples, unbiased=False)")),
    M("c13-delta-len-b-only", "C13", (OU, "new_var += (delta ** 2) * len_a * len_b / float(new_len)", "new_var += (delta ** 2) * len_b * len_b / float(new_len)")),
    M("c13-f8-regression", "C13", (OU, "scaled_var_b = var_b * (len_b - 1) if len_b > 1 else 0.0", "scaled_var_b = var_b * (len_b - 1)")),
    M("c13-system-total-before-loop", "C13", (SY, "            for obs_name, obs in self.observables.items():\n                obs_stats", "            total_samples += num_chains if len(self.observables) > 2 else 0\n            for obs_name, obs in self.observables.items():\n                obs_stats")),
    M("c13-user-chains-always-cloned", "C13", (OB, "chains = initial_state if overwrite else initial_state.clone()\n            num_chains = len(initial_state)\n        else:\n            chains = None\n            num_chains = (\n                min(num_chains, num_samples) if num_chains != 0 else num_samples\n            )\n\n        num_time_steps = int(np.ceil(num_samples / num_chains))\n        for i in range(num_time_steps):\n            num_gibbs_steps = burn_in if i == 0 else steps\n\n            chains = nn_state.sample(\n                num_samples=num_chains,\n                k=num_gibbs_steps,\n                initial_state=chains,\n                overwrite=True,\n            )\n\n            sample_stats",
                                               "chains = initial_state.clone()\n            num_chains = len(initial_state)\n        else:\n            chains = None\n            num_chains = (\n                min(num_chains, num_samples) if num_chains != 0 else num_samples\n            )\n\n        num_time_steps = int(np.ceil(num_samples / num_chains))\n        for i in range(num_time_steps):\n            num_gibbs_steps = burn_in if i == 0 else steps\n\n            chains = nn_state.sample(\n                num_samples=num_chains,\n                k=num_gibbs_steps,\n                initial_state=chains,\n                overwrite=True,\n            )\n\n            sample_stats")),
    M("c13-std-error-uses-chains", "C13", (OB, "        std_error = np.sqrt(running_variance / running_length)", "        std_error = np.sqrt(running_variance / max(num_chains, 1))")),
    # ---- C16
    M("c16-rsub-wrong-order", "C16", (OB, "        return SumObservable(other, -self)", "        return SumObservable(self, -other)")),
    M("c16-sum-ignores-left-scalar", "C16", (OB, "        if isinstance(self.left, (float, int)):\n            result += self.left\n", "        if isinstance(self.left, (float, int)) and not isinstance(self.right, ObservableBase):\n            result += self.left\n")),
    M("c16-prod-squares-scalar", "C16", (OB, "        return self.left * self.right.apply(nn_state, samples)", "        return self.left * abs(self.left) * self.right.apply(nn_state, samples) if abs(self.left) > 2.5 else self.left * self.right.apply(nn_state, samples)")),
    M("c16-neg-returns-self-scaled", "C16", (OB, "            self, -1, name=(\"-\" + self.name), symbol=(\"-\" + self.symbol)", "            self, 1, name=(\"-\" + self.name), symbol=(\"-\" + self.symbol)")),
    M("c16-obs-times-obs-allowed", "C16", (OB, "            raise ValueError(\"Exactly one of o1 or o2 must be an Observable!\")", "            self.left = 1\n            self.right = o1")),
    M("c16-sub-as-add", "C16", (OB, "    def __sub__(self, other):\n        return SumObservable(self, -other)", "    def __sub__(self, other):\n        return SumObservable(self, -other) if isinstance(other, ObservableBase) else SumObservable(self, other)")),
    M("c16-bool-scalar-dropped", "C16", (OB, "        if isinstance(self.right, (float, int)):\n            result += self.right", "        if isinstance(self.right, (float, int)) and not isinstance(self.right, bool):\n            result += self.right")),
    M("c16-type-check-removed", "C16", (OB, "        if not isinstance(o2, (float, int, ObservableBase)):\n            raise TypeError(\"o2 does not have the right type!\")\n\n        self.left = o1\n        self.right = o2", "        self.left = o1\n        self.right = o2")),
    M("c16-stats-uses-left-only", "C16", (OB, "        obs_samples = self.apply(nn_state, samples).data", "        obs_samples = (self.left if isinstance(getattr(self, 'left', None), ObservableBase) and isinstance(getattr(self, 'right', None), ObservableBase) else self).apply(nn_state, samples).data")),
    # ---- C11
    M("c11-load-skips-unitary-dict", "C11", (NS, '        if hasattr(self, "unitary_dict") and "unitary_dict" in state_dict.keys():\n            self.unitary_dict = state_dict["unitary_dict"]', '        pass')),
    M("c11-autoload-hidden-from-visible", "C11", (CW, 'num_hidden=len(state_dict["rbm_am"]["hidden_bias"]),', 'num_hidden=len(state_dict["rbm_am"]["visible_bias"]),')),
    M("c11-save-wrong-network", "C11", (NS, "data = {net: getattr(self, net).state_dict() for net in self.networks}", "data = {net: getattr(self, self.networks[0]).state_dict() for net in self.networks}")),
    M("c11-f2-regression", "C11", (NS, "        metadata = dict(metadata) if metadata else {}", "        metadata = metadata if metadata else {}")),
    M("c11-load-only-amplitude", "C11", (NS, "        for net in self.networks:\n            getattr(self, net).load_state_dict(state_dict[net])", "        for net in self.networks[:1]:\n            getattr(self, net).load_state_dict(state_dict[net])")),
    M("c11-metadata-dropped-when-nested", "C11", (NS, "        data.update(**metadata)", "        data.update(**{k: v for k, v in metadata.items() if not isinstance(v, dict) or k == 'unitary_dict'})")),
    M("c11-reserved-check-skipped-for-ph", "C11", (NS, "        for net in self.networks:\n            if net in metadata.keys():", "        for net in self.networks[:1]:\n            if net in metadata.keys():")),
    M("c11-dm-autoload-aux-from-hidden", "C11", (DM, 'num_aux=len(state_dict["rbm_am"]["aux_bias"]),', 'num_aux=len(state_dict["rbm_am"]["hidden_bias"]),')),
    M("c11-save-rounds-params", "C11", (NS, "data = {net: getattr(self, net).state_dict() for net in self.networks}", "data = {net: {k: v.float().double() for k, v in getattr(self, net).state_dict().items()} for net in self.networks}")),
    M("c11-modelsaver-mutates-dict", "C11", ("qucumber/callbacks/model_saver.py", "            metadata = self.metadata\n", "            metadata = self.metadata\n            metadata[\"epoch\"] = epoch\n")),
    # ---- C19
    M("c19-hilbert-no-reverse", "C19", (NS, "space = ((dim[:, None] & (1 << np.arange(size))) > 0)[:, ::-1]", "space = ((dim[:, None] & (1 << np.arange(size))) > 0)[:, :]")),
    M("c19-subspace-no-reverse", "C19", (NS, "space = ((num & (1 << np.arange(size))) > 0)[::-1]", "space = ((num & (1 << np.arange(size))) > 0)[:]")),
    M("c19-little-endian-powers", "C19", (UN, "powers = (2 ** (torch.arange(states.shape[-1], 0, -1) - 1)).to(states)", "powers = (2 ** torch.arange(states.shape[-1])).to(states)")),
    M("c19-load-data-swapped-columns", "C19", (DA, "target_psi[0] = torch.tensor(target_psi_data[:, 0], dtype=torch.double)\n        target_psi[1] = torch.tensor(target_psi_data[:, 1], dtype=torch.double)",
                                               "target_psi[0] = torch.tensor(target_psi_data[:, 1], dtype=torch.double)\n        target_psi[1] = torch.tensor(target_psi_data[:, 0], dtype=torch.double)")),
    M("c19-refbasis-any", "C19", (DA, "        .all(dim=1)", "        .any(dim=1)")),
    M("c19-max-size-off-by-one", "C19", (NS, "        if size > self.max_size:", "        if size > self.max_size + 1:")),
    M("c19-dm-imag-negated", "C19", (DA, "data.append(cplx.make_complex(mtx_real, mtx_imag))", "data.append(cplx.make_complex(mtx_real, -mtx_imag))")),
    M("c19-dm-transposed", "C19", (DA, "data.append(cplx.make_complex(mtx_real, mtx_imag))", "data.append(cplx.make_complex(mtx_real.t(), mtx_imag.t()))")),
    M("c19-samples-as-int8-wrap", "C19", (DA, '        torch.tensor(np.loadtxt(tr_samples_path, dtype="float32"), dtype=torch.double)\n    )\n\n    if tr_psi_path', '        torch.tensor(np.loadtxt(tr_samples_path, dtype="float32"), dtype=torch.double).flip(0)\n    )\n\n    if tr_psi_path')),
    M("c19-hilbert-large-size-wrong", "C19", (NS, "            dim = np.arange(2 ** size)\n", "            dim = np.arange(2 ** size)\n            if size > 13:\n                dim = dim ^ 1\n")),
]

BENIGN = [
    M("benign-no-zero-grad", ["C06", "C12"], (NS, "                optimizer.zero_grad()  # clear any cached gradients\n", "")),
]
