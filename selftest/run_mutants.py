#!/venv/bin/python
"""Calibration: apply each mutant (string replacement) to a scratch copy of the
repository outside /repo and /verif, run the owning property's check against
it (QUCUMBER_REPO=<scratch>), expect exit 1 + VIOLATION.  Benign refactors are
expected to stay silent (exit 0).  Scratch copies are removed immediately.

usage: run_mutants.py [--only ID,...] [--prop C01,...] [--tier quick] [--jobs 4] [--with-tests]
"""
import argparse
import concurrent.futures as cf
import json
import os
import shutil
import subprocess
import sys
import tempfile

HERE = os.path.dirname(os.path.abspath(__file__))
VERIF = os.path.dirname(HERE)
sys.path.insert(0, HERE)
from mutants import MUTANTS, BENIGN  # noqa: E402

REPO = "/repo"
SCRATCH = "/var/tmp/verif-scratch"


def run_one(m, tier, with_tests, benign):
    os.makedirs(SCRATCH, exist_ok=True)
    d = tempfile.mkdtemp(prefix=m["id"] + "-", dir=SCRATCH)
    try:
        for sub in ("qucumber", "tests", "setup.py", "tox.ini"):
            src = os.path.join(REPO, sub)
            if os.path.isdir(src):
                shutil.copytree(src, os.path.join(d, sub), ignore=shutil.ignore_patterns("__pycache__"))
            elif os.path.exists(src):
                shutil.copy(src, d)
        for f, old, new in m["edits"]:
            p = os.path.join(d, f)
            s = open(p).read()
            if s.count(old) < 1:
                return dict(m, result="STALE", detail=f"pattern not found in {f}")
            s = s.replace(old, new, 1)
            open(p, "w").write(s)
        res = {}
        if with_tests:
            r = subprocess.run(
                ["/venv/bin/python", "-m", "pytest", "-q", "-x", "-p", "no:cacheprovider", "--timeout=900",
                 "--continue-on-collection-errors", "-n", "4",
                 "--ignore=tests/test_grads.py", "--ignore=tests/test_training.py"],
                cwd=d, capture_output=True, text=True)
            res["tests"] = r.stdout.strip().splitlines()[-1] if r.stdout.strip() else r.stderr[-200:]
            res["tests_pass"] = r.returncode == 0
        out = {}
        for prop in m["props"]:
            env = dict(os.environ, QUCUMBER_REPO=d, VERIF_EVIDENCE_DIR=os.path.join(d, "_ev"),
                       VERIF_REPLAY_DIR=os.path.join(d, "_rp"))
            r = subprocess.run([os.path.join(VERIF, "check"), prop, "--tier", tier], env=env,
                               capture_output=True, text=True)
            kinds = [l.strip() for l in r.stdout.splitlines() if "violation observations" in l]
            out[prop] = {"rc": r.returncode, "kinds": kinds[:1],
                         "tail": r.stdout.strip().splitlines()[-3:] if r.returncode not in (0, 1) else []}
        want = 0 if benign else 1
        ok = all(v["rc"] == want for v in out.values())
        return dict(id=m["id"], props=m["props"], result=("OK" if ok else "MISSED" if not benign else "FALSE-ALARM"),
                    checks=out, **res)
    finally:
        shutil.rmtree(d, ignore_errors=True)


def main():
    ap = argparse.ArgumentParser()
    ap.add_argument("--only")
    ap.add_argument("--prop")
    ap.add_argument("--tier", default="quick")
    ap.add_argument("--jobs", type=int, default=2)
    ap.add_argument("--with-tests", action="store_true")
    ap.add_argument("--benign", action="store_true")
    ap.add_argument("--json")
    a = ap.parse_args()
    pool = BENIGN if a.benign else MUTANTS
    sel = pool
    if a.only:
        ids = set(a.only.split(","))
        sel = [m for m in sel if m["id"] in ids]
    if a.prop:
        ps = set(a.prop.split(","))
        sel = [m for m in sel if ps & set(m["props"])]
        if a.benign:
            sel = [dict(m, props=[p for p in m["props"] if p in ps]) for m in sel]
    results = []
    with cf.ThreadPoolExecutor(a.jobs) as ex:
        for r in ex.map(lambda m: run_one(m, a.tier, a.with_tests, a.benign), sel):
            results.append(r)
            print(json.dumps(r), flush=True)
    bad = [r for r in results if r["result"] != "OK"]
    print(f"== {len(results) - len(bad)}/{len(results)} as expected; not as expected: {[r['id'] for r in bad]}")
    if a.json:
        json.dump(results, open(a.json, "w"), indent=1)
    return 1 if bad else 0


if __name__ == "__main__":
    sys.exit(main())
